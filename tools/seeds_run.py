#!/usr/bin/env python3
"""Runs seeded changes against checks: seeds_run.py <seed-id>[:Cxx[,Cyy]] ...   (default property = the one in the seed id)
Appends one line per (seed, property) to .build/seeds_run.txt: DETECTED (with the failure keys) / MISSED / INCONCLUSIVE."""
import os, re, subprocess, sys, time
os.chdir('/verif')
os.makedirs('.build/logs', exist_ok=True)
for arg in sys.argv[1:]:
    sid, _, props = arg.partition(':')
    props = props.split(',') if props else [re.search(r'(C\d\d)', sid).group(1)]
    patch = 'seeded/%s/patch.diff' % sid
    for prop in props:
        t0 = time.time()
        r = subprocess.run(['tools/with_patch.sh', patch, './check', prop, 'quick'], capture_output=True, text=True)
        open('.build/logs/seed-%s-%s.out' % (sid, prop), 'w').write(r.stdout + '\n=====STDERR=====\n' + r.stderr)
        keys = sorted(set(re.findall(r'FAILED key=(.*)', r.stderr)))
        if 'worker died in code under test' in r.stderr:
            keys.append('worker-died-in-code-under-test')
        verdict = 'DETECTED' if 'VIOLATION property=' in r.stdout else ('INCONCLUSIVE' if r.returncode == 2 else ('MISSED' if r.returncode == 0 else 'RC%d' % r.returncode))
        line = '%s %s %s %.0fs %s' % (sid, prop, verdict, time.time() - t0, '; '.join(keys)[:300])
        print(line, flush=True)
        open('.build/seeds_run.txt', 'a').write(line + '\n')
