#!/bin/bash
# usage: with_patch.sh <patch.diff> <command...>
# Applies a seeded change to /repo, runs the command, and always restores /repo.
set -u
patch="$(realpath "$1")"; shift
# builds of concurrently running checks wait while the change is applied (see build() in /verif/check)
mkdir -p /verif/.build; exec 9>/verif/.build/repo.lock; flock 9; export VERIF_LOCK_HELD=1
if [ -n "$(git -C /repo status --porcelain --untracked-files=no)" ]; then echo "/repo not clean" >&2; exit 3; fi
git -C /repo apply "$patch" || { echo "patch does not apply" >&2; exit 3; }
VERIF_EVIDENCE_DIR=/verif/.build/evidence-seeded "$@"; rc=$?
git -C /repo checkout -- . 
git -C /repo clean -fdq -- . >/dev/null 2>&1 || true
exit $rc
