#!/bin/bash
# usage: with_patch.sh <patch.diff> <command...>
# Applies a seeded change to /repo, runs the command, and always restores /repo.
set -u
patch="$(realpath "$1")"; shift
if [ -n "$(git -C /repo status --porcelain --untracked-files=no)" ]; then echo "/repo not clean" >&2; exit 3; fi
git -C /repo apply "$patch" || { echo "patch does not apply" >&2; exit 3; }
VERIF_EVIDENCE_DIR=/verif/.build/evidence-seeded "$@"; rc=$?
git -C /repo checkout -- . 
git -C /repo clean -fdq -- . >/dev/null 2>&1 || true
exit $rc
