#!/opt/veriftools/pyvenv/bin/python
import json, jsonschema, glob, sys
m=json.load(open('/verif/MANIFEST.json')); jsonschema.validate(m, json.load(open('/root/.vp/MANIFEST.schema.json')))
es=json.load(open('/root/.vp/EVIDENCE.schema.json'))
bad=0
for c in m['checks']:
    try:
        e=json.load(open(c['evidence_file'])); jsonschema.validate(e, es)
        assert e['property_id']==c['property_id'] and e['level']==c['level_claimed']['category']
        print(c['property_id'], e['tier'], 'evals', e['coverage']['evaluations'], 'nontrivial', e['coverage']['distinct_nontrivial'], 'wall', e['wall_s'], 'viol', e.get('violations'))
    except Exception as ex:
        bad+=1; print('BAD', c['property_id'], str(ex)[:300])
sys.exit(1 if bad else 0)
