#!/usr/bin/env python3
"""Re-validates every seeded change against the current /repo HEAD: the patch must still apply and the check named
in its meta.json (first 'Cxx quick' of detected_by) must report a violation. Usage: seeds_regress.py [seed-id ...]"""
import json, os, re, subprocess, sys, glob
os.chdir('/verif')
ids = sys.argv[1:] or sorted(d.split('/')[-2] for d in glob.glob('seeded/*/meta.json'))
res = []
for sid in ids:
    meta = json.load(open('seeded/%s/meta.json' % sid))
    if meta.get('status') in ('dropped', 'neutralised', 'outside-property'):
        continue
    m = re.search(r'(C\d\d) quick', meta.get('detected_by', ''))
    prop = m.group(1) if m else meta['breaks_property']
    patch = 'seeded/%s/patch.diff' % sid
    if subprocess.run(['git', '-C', '/repo', 'apply', '--check', os.path.abspath(patch)], capture_output=True).returncode != 0:
        res.append((sid, prop, 'PATCH-DOES-NOT-APPLY')); print(res[-1], flush=True); continue
    r = subprocess.run(['tools/with_patch.sh', patch, './check', prop, 'quick'], capture_output=True, text=True)
    verdict = 'DETECTED' if 'VIOLATION property=' in r.stdout else ('INCONCLUSIVE' if r.returncode == 2 else 'MISSED')
    res.append((sid, prop, verdict)); print(res[-1], flush=True)
json.dump(res, open('.build/seeds_regress.json', 'w'), indent=1)
bad = [r for r in res if r[2] != 'DETECTED']
print('%d seeds, %d not detected: %s' % (len(res), len(bad), bad))
