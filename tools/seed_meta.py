#!/usr/bin/env python3
# usage: seed_meta.py <seed-id> <property> <source-meta.txt> <detected-by> <ran>
import json, sys, os
sid, prop, src, det, ran = sys.argv[1:6]
d = "/verif/seeded/%s" % sid
meta = {
  "seed_id": sid, "breaks_property": prop,
  "origin": "independent sub-agent given only the property text and a scratch worktree (no access to /verif)",
  "description_and_needs": open(src).read() if os.path.exists(src) else src,
  "confirmed": "tools/seed_verify.sh: patch applies to /repo HEAD, builds, existing suite passes with it, demonstration fails with it and passes without it",
  "detected_by": det, "ran": ran,
}
json.dump(meta, open(d + "/meta.json", "w"), indent=1)
print("wrote", d + "/meta.json")
