#!/bin/bash
# usage: seed_verify.sh <seed-id> <patch.diff> <demo-dir> <pkg-dir-for-demo> <go test -run regex> [extra go test args]
# Confirms a seeded change in a scratch worktree of /repo HEAD: applies (3-way), builds,
# runs the existing suite, runs the demonstration with and without the change.
# On success stores patch.diff (rebased onto HEAD) + demo under /verif/seeded/<seed-id>/.
set -u
id="$1"; patch="$2"; demo="$3"; pkg="$4"; run="$5"; shift 5
export GOFLAGS=-mod=mod GOPROXY=off GOSUMDB=off GOTOOLCHAIN=local
W=/tmp/mut/verify-$id
git -C /repo worktree remove --force $W >/dev/null 2>&1
git -C /repo worktree add --detach $W HEAD >/dev/null 2>&1 || { echo "worktree failed"; exit 3; }
cleanup() { git -C /repo worktree remove --force $W >/dev/null 2>&1; }
cd $W
if ! git apply -3 "$patch" 2>/tmp/mut/apply-$id.log; then echo "RESULT $id: patch does not apply (see /tmp/mut/apply-$id.log)"; cat /tmp/mut/apply-$id.log | tail -5; cleanup; exit 4; fi
if git diff --name-only --diff-filter=U | grep -q .; then echo "RESULT $id: merge conflict"; git diff --name-only --diff-filter=U; cleanup; exit 4; fi
git reset -q   # unstage; keep working tree changes
git diff > /tmp/mut/rebased-$id.diff
go build ./... || { echo "RESULT $id: does not build"; cleanup; exit 5; }
suite=$(go test -vet=off -count=1 ./... 2>&1 | grep -E "^(--- FAIL|FAIL|panic)" | grep -v -E "TestHnswSearchLevel(WithDeletedVertices)?( |$)" | grep -v "^FAIL$" | grep -v "FAIL	github.com/marekgalovic/anndb/index	" )
echo "suite-with-change non-flaky failures: [$suite]"
mkdir -p $pkg; cp $demo/*.go $pkg/ 2>/dev/null
with=$(go test -vet=off -count=1 -run "$run" "$@" ./$pkg/ 2>&1 | tail -30)
echo "$with" | grep -qE "^(FAIL|--- FAIL|panic|fatal)" && wf=1 || wf=0
git checkout -q -- .
without=$(go test -vet=off -count=1 -run "$run" "$@" ./$pkg/ 2>&1 | tail -8)
echo "$without" | grep -qE "^ok" && wo=1 || wo=0
echo "demo with change fails: $wf ; demo without change passes: $wo"
if [ $wf = 1 ] && [ $wo = 1 ] && [ -z "$suite" ]; then
  mkdir -p /verif/seeded/$id && cp /tmp/mut/rebased-$id.diff /verif/seeded/$id/patch.diff && mkdir -p /verif/seeded/$id/demo && cp $demo/* /verif/seeded/$id/demo/
  echo "RESULT $id: CONFIRMED"
else
  echo "RESULT $id: NOT confirmed"; echo "--- with:"; echo "$with" | tail -12; echo "--- without:"; echo "$without"
fi
cleanup
