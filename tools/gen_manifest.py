#!/usr/bin/env python3
"""Regenerates /verif/MANIFEST.json from checks.json (claimed properties) and
manifest_text.json (level text / notes / technique per property)."""
import json, os, subprocess
R = os.path.dirname(os.path.dirname(os.path.abspath(__file__)))
cfg = json.load(open(os.path.join(R, "checks.json")))["properties"]
txt = json.load(open(os.path.join(R, "manifest_text.json")))
props = [json.loads(l) for l in open(os.path.join(R, "properties.jsonl"))]
hooks = txt["_hooks"]
checks, na = [], []
for p in props:
    pid = p["id"]
    if pid in cfg and pid in txt and not txt[pid].get("not_applicable"):
        t = txt[pid]
        checks.append({
            "property_id": pid,
            "quick_cmd": "./check %s quick" % pid,
            "thorough_cmd": "./check %s thorough" % pid,
            "evidence_file": "/verif/evidence/%s.json" % pid,
            "replay_cmd_template": "./check --replay {path}",
            "engine": "rapid-pbt",
            "level_claimed": {"category": cfg[pid].get("level", "exploration"), "text": t["level_text"], "design_ref": t.get("design_ref", "DESIGN.md §6 " + pid)},
            "level_note": t["level_note"],
            "technique": t["technique"],
        })
    else:
        na.append({"property_id": pid, "reason": (txt.get(pid) or {}).get("not_applicable") or "check not built yet in this session (work in progress; see DESIGN.md §6 for the planned check)"})
m = {
    "version": 1,
    "setup_cmd": "./check --build-all",
    "hooks": hooks,
    "engines": [{"name": "rapid-pbt", "path": "/verif/harness", "serves_properties": [c["property_id"] for c in checks],
                 "kind_free_text": "Go property-based tests (pgregory.net/rapid v1.3.0) driven by /verif/check: generated cases vs explicit oracles, sharded over 16 processes, JSON replay tapes; native go fuzzing in some thorough tiers"}],
    "checks": checks,
    "notes": txt.get("_notes", ""),
    "not_applicable": na,
}
json.dump(m, open(os.path.join(R, "MANIFEST.json"), "w"), indent=1)
print("claimed:", [c["property_id"] for c in checks], "na:", len(na))
