// Package ctl is the control-plane flavour of harness layer B: N simulated nodes, each wired exactly as
// server.go wires a node - cluster.Conn, RaftTransport, the zero RaftGroup over its own Badger log store,
// the shared group on top of it, NodesManager, Allocator and a DatasetManager registered as the shared
// group's "datasets" consumer, the zero group started last - minus the gRPC listener: raft messages travel
// through sim.Net's in-memory shims and the join handshake is performed by calling the member's
// NodesManager.AddNode and handing the returned node list to the joiner's Conn, which is what
// services.NodesManagerServer.AddNode and NodesManager.tryJoin do on either side of the wire.
// Catalogue changes are proposed through the real DatasetManager API and committed by the real zero
// groups; partitions load their raft groups through the real allocator on every hosting node.
package ctl

import (
	"context"
	"errors"
	"fmt"
	"sort"
	"strings"
	"sync"
	"time"

	etcdRaft "github.com/coreos/etcd/raft"
	badger "github.com/dgraph-io/badger/v2"
	"github.com/marekgalovic/anndb/cluster"
	pb "github.com/marekgalovic/anndb/protobuf"
	"github.com/marekgalovic/anndb/storage"
	"github.com/marekgalovic/anndb/storage/raft"
	"github.com/marekgalovic/anndb/storage/wal"
	uuid "github.com/satori/go.uuid"
	"verifharness/hutil"
	"verifharness/sim"
)

func NodeID(i int) uint64 { return uint64(801 + i) }

type Node struct {
	I    int
	Id   uint64
	Addr string
	DB   *badger.DB
	Inc  int
	// Joined: the node's join was acknowledged (node 0 bootstraps the cluster)
	Joined bool

	mu sync.Mutex
	up bool
	// current incarnation
	Conn  *cluster.Conn
	Tr    *raft.RaftTransport
	Zero  *raft.RaftGroup
	Mon   *sim.MonWAL
	NM    *raft.NodesManager
	Alloc *storage.Allocator
	DM    *storage.DatasetManager
}

type Cluster struct {
	Nodes []*Node
	Net   *sim.Net

	mu    sync.Mutex
	stuck map[*raft.RaftGroup]bool // ready loops that did not take a tick within the hook's bound (10 s)
	hung  []string                 // calls into a node that did not return within their bound
	wired map[*storage.Dataset]bool // Dataset objects that have their in-memory clients
}

// Stuck reports what did not respond: ready loops that would not take a tick, calls that did not return.
func (c *Cluster) Stuck() []string {
	c.mu.Lock()
	defer c.mu.Unlock()
	out := append([]string(nil), c.hung...)
	for g := range c.stuck {
		out = append(out, fmt.Sprintf("the ready loop of group %x took no tick within 10 s", g.VerifId()))
	}
	return out
}

func New(n int) *Cluster {
	c := &Cluster{Net: sim.NewNet()}
	for i := 0; i < n; i++ {
		c.Nodes = append(c.Nodes, &Node{I: i, Id: NodeID(i), Addr: fmt.Sprintf("sim:%d", NodeID(i)), DB: hutil.MemDB()})
	}
	return c
}

func (n *Node) Up() bool {
	n.mu.Lock()
	defer n.mu.Unlock()
	return n.up
}

// Start (re)starts node i the way server.go's setup does. bootstrap: the node was started without -join
// (the first node of the cluster): its zero group is given itself as the only peer, every time it starts.
func (c *Cluster) Start(i int, bootstrap bool) error {
	n := c.Nodes[i]
	n.Inc++
	var err error
	n.Conn, err = cluster.NewConn(n.Id, n.Addr, "")
	if err != nil {
		return err
	}
	n.Alloc = storage.NewAllocator(n.Conn)
	n.Tr = raft.NewTransport(n.Id, n.Addr, n.Conn)
	for _, p := range c.Nodes {
		if p.Id != n.Id {
			n.Tr.VerifSetPeerClient(p.Id, c.Net.Client(n.Id, p.Id))
		}
	}
	var peers []uint64
	if bootstrap {
		peers = []uint64{n.Id}
	}
	n.Mon = sim.NewMonWAL(wal.NewBadgerWAL(n.DB, uuid.Nil))
	n.Zero, err = raft.NewRaftGroup(uuid.Nil, peers, n.Mon, n.Tr)
	if err != nil {
		return err
	}
	sg, err := raft.NewSharedGroup(n.Zero)
	if err != nil {
		return err
	}
	n.NM = raft.NewNodesManager(n.Conn, n.Zero)
	n.DM, err = storage.NewDatasetManager(sg.Get("datasets"), n.DB, n.Tr, n.Conn, n.Alloc)
	if err != nil {
		return err
	}
	if err := n.Zero.Start(); err != nil {
		return err
	}
	c.Net.SetTarget(n.Id, n.Tr)
	n.mu.Lock()
	n.up = true
	n.mu.Unlock()
	return nil
}

// Kill ends node i's incarnation like a process death between two durable writes: its groups disappear from
// the network without a goodbye and their ready loops are gone before Kill returns (false if one of them did
// not exit within the bound - it is then blocked inside the code under test).
func (c *Cluster) Kill(i int) bool {
	n := c.Nodes[i]
	n.mu.Lock()
	if !n.up {
		n.mu.Unlock()
		return true
	}
	n.up = false
	n.mu.Unlock()
	c.Net.SetTarget(n.Id, nil)
	// the zero group first: from then on nothing hands partitions over to the allocator any more
	n.Mon.Kill()
	n.Zero.VerifKill()
	ok := n.Zero.VerifWaitLoopExit(2 * time.Second)
	if !ok {
		return false // the zero group's loop is stuck in the code under test (Stop would close a channel it may be sending on)
	}
	n.Alloc.Stop()
	// the allocator loop may still be loading a partition's group: kill whatever is registered until nothing appears any more
	// (the loop has no exit signal the harness could wait for: a load it was in the middle of registers its group a
	// moment later, so nothing must have appeared for 6 ms)
	for quiet := 0; quiet < 20; {
		groups := n.Tr.VerifGroups()
		if len(groups) == 0 {
			quiet++
			time.Sleep(300 * time.Microsecond)
			continue
		}
		quiet = 0
		for _, g := range groups {
			g.VerifKill()
			if !g.VerifWaitLoopExit(2 * time.Second) {
				ok = false
			}
		}
	}
	n.Conn.Close()
	return ok
}

// Join performs the join handshake of node i through member via.
func (c *Cluster) Join(i, via int) error {
	j, v := c.Nodes[i], c.Nodes[via]
	nodes, err := v.NM.AddNode(j.Id, j.Addr)
	if err != nil {
		return err
	}
	for id, addr := range nodes {
		j.Conn.AddNode(id, addr)
	}
	return nil
}

// Groups lists every raft group (zero group included) registered on node i's transport.
func (c *Cluster) Groups(i int) []*raft.RaftGroup {
	n := c.Nodes[i]
	if !n.Up() {
		return nil
	}
	return n.Tr.VerifGroups()
}

// Tick delivers rounds of one logical tick to every group of every live node.
func (c *Cluster) Tick(rounds int) {
	for r := 0; r < rounds; r++ {
		for i := range c.Nodes {
			for _, g := range c.Groups(i) {
				c.mu.Lock()
				skip := c.stuck[g]
				c.mu.Unlock()
				if skip {
					continue
				}
				if !g.VerifTick(1) && !g.VerifStopped() {
					c.mu.Lock()
					if c.stuck == nil {
						c.stuck = map[*raft.RaftGroup]bool{}
					}
					c.stuck[g] = true
					c.mu.Unlock()
				}
			}
		}
	}
}

var ErrStuck = errors.New("ctl: the call did not return within the bound")

// WhileTicking runs a blocking call while logical time keeps flowing.
func (c *Cluster) WhileTicking(rounds int, fn func() error) error {
	done := make(chan error, 1)
	go func() { done <- fn() }()
	for r := 0; r < rounds; r++ {
		select {
		case err := <-done:
			return err
		default:
		}
		c.Tick(1)
		time.Sleep(100 * time.Microsecond)
	}
	select {
	case err := <-done:
		return err
	default:
	}
	return ErrStuck
}

// ZeroLeader returns the index of the live node that leads the zero group, -1 if none.
func (c *Cluster) ZeroLeader() int {
	for i, n := range c.Nodes {
		if n.Up() && n.Zero.VerifStatus().RaftState == etcdRaft.StateLeader {
			return i
		}
	}
	return -1
}

func (c *Cluster) ElectZero(rounds int) bool {
	for r := 0; r < rounds; r++ {
		if c.ZeroLeader() >= 0 {
			return true
		}
		c.Tick(1)
		time.Sleep(100 * time.Microsecond)
	}
	return false
}

// Render is node i's catalogue in canonical form: one line per dataset (sorted by id) with dimension, space,
// partition ids in list order and each partition's node ids in list order.
func (c *Cluster) Render(i int) string {
	n := c.Nodes[i]
	var lines []string
	type res struct {
		ds  []*pb.Dataset
		err error
	}
	rc := make(chan res, 1)
	go func() {
		ds, err := n.DM.List(context.Background(), false)
		rc <- res{ds, err}
	}()
	var ds []*pb.Dataset
	select {
	case r := <-rc:
		if r.err != nil {
			return "List failed: " + r.err.Error()
		}
		ds = r.ds
	case <-time.After(5 * time.Second):
		c.mu.Lock()
		c.hung = append(c.hung, fmt.Sprintf("DatasetManager.List on node %d did not return within 5 s", i))
		c.mu.Unlock()
		return fmt.Sprintf("List on node %d blocked", i)
	}
	for _, m := range ds {
		lines = append(lines, RenderDataset(m))
	}
	sort.Strings(lines)
	return strings.Join(lines, "\n")
}

func RenderDataset(m *pb.Dataset) string {
	id, _ := uuid.FromBytes(m.GetId())
	var b strings.Builder
	fmt.Fprintf(&b, "%s dim=%d space=%d count=%d repl=%d parts=[", id, m.GetDimension(), m.GetSpace(), m.GetPartitionCount(), m.GetReplicationFactor())
	for _, p := range m.GetPartitions() {
		pid, _ := uuid.FromBytes(p.GetId())
		fmt.Fprintf(&b, "%s%v ", pid.String()[:8], p.GetNodeIds())
	}
	b.WriteString("]")
	return b.String()
}

// Create proposes a dataset through node i's DatasetManager while logical time flows.
func (c *Cluster) Create(i int, req *pb.Dataset, d time.Duration, rounds int) (*pb.Dataset, error) {
	var meta *pb.Dataset
	err := c.WhileTicking(rounds, func() error {
		ctx, cancel := context.WithTimeout(context.Background(), d)
		defer cancel()
		ds, err := c.Nodes[i].DM.Create(ctx, req)
		if err == nil {
			meta = ds.Meta()
		}
		return err
	})
	return meta, err
}

func (c *Cluster) Delete(i int, id uuid.UUID, d time.Duration, rounds int) error {
	return c.WhileTicking(rounds, func() error {
		ctx, cancel := context.WithTimeout(context.Background(), d)
		defer cancel()
		return c.Nodes[i].DM.Delete(ctx, id)
	})
}

func (c *Cluster) Close() {
	for i, n := range c.Nodes {
		if n.Up() {
			c.Kill(i)
		}
	}
	c.Net.Wait()
	time.Sleep(2 * time.Millisecond)
	for _, n := range c.Nodes {
		if n.Tr != nil {
			for _, g := range n.Tr.VerifGroups() { // a group the dying allocator loop registered at the last moment
				g.VerifKill()
				g.VerifWaitLoopExit(time.Second)
			}
		}
	}
	for _, n := range c.Nodes {
		n.DB.Close()
	}
}
