package ctl

// The data path between simulated nodes: the DataManager and Search clients a Dataset uses to reach another node are
// in-memory shims that call the target node's services.* server of its current incarnation (a node that is down
// answers Unavailable), installed on every Dataset object a node's DatasetManager holds.

import (
	"context"
	"io"
	"time"

	pb "github.com/marekgalovic/anndb/protobuf"
	"github.com/marekgalovic/anndb/services"
	"github.com/marekgalovic/anndb/storage"
	uuid "github.com/satori/go.uuid"
	"google.golang.org/grpc"
	"google.golang.org/grpc/codes"
	"google.golang.org/grpc/metadata"
	"google.golang.org/grpc/status"
)

func (c *Cluster) dataServer(to *Node) (pb.DataManagerServer, error) {
	to.mu.Lock()
	defer to.mu.Unlock()
	if !to.up || to.DM == nil {
		return nil, status.Errorf(codes.Unavailable, "sim: node %d is down", to.I)
	}
	return services.NewDataManagerServer(to.DM), nil
}

func (c *Cluster) searchServer(to *Node) (pb.SearchServer, error) {
	to.mu.Lock()
	defer to.mu.Unlock()
	if !to.up || to.DM == nil {
		return nil, status.Errorf(codes.Unavailable, "sim: node %d is down", to.I)
	}
	return services.NewSearchServer(to.DM), nil
}

// Wire installs the in-memory clients on every Dataset object of every live node that does not have them yet
// (datasets appear when the zero group's log is applied, again after every restart).
func (c *Cluster) Wire() {
	for _, n := range c.Nodes {
		if !n.Up() {
			continue
		}
		metas, err := n.DM.List(context.Background(), false)
		if err != nil {
			continue
		}
		for _, m := range metas {
			id, err := uuid.FromBytes(m.GetId())
			if err != nil {
				continue
			}
			ds, err := n.DM.Get(id)
			if err != nil {
				continue
			}
			c.mu.Lock()
			if c.wired == nil {
				c.wired = map[*storage.Dataset]bool{}
			}
			done := c.wired[ds]
			c.wired[ds] = true
			c.mu.Unlock()
			if done {
				continue
			}
			for _, p := range c.Nodes { // (a node reaches its own search service through a client as well)
				ds.VerifSetClients(p.Id, &searchShim{c: c, to: p}, &dataShim{c: c, to: p})
			}
		}
	}
}

// Dataset is node i's object for the dataset (nil while the node is down or has not applied the creation).
func (c *Cluster) Dataset(i int, id uuid.UUID) *storage.Dataset {
	n := c.Nodes[i]
	if !n.Up() {
		return nil
	}
	ds, err := n.DM.Get(id)
	if err != nil {
		return nil
	}
	return ds
}

// Form starts node 0 as the bootstrap node and lets the others join through it, one at a time, each join settled
// (every member's zero group lists the joiner) before the next. "" or the reason it did not get there.
func (c *Cluster) Form() string { return c.FormFirst(len(c.Nodes)) }

// FormFirst forms the cluster from the first n nodes; the others may join later (JoinSettled).
func (c *Cluster) FormFirst(n int) string {
	if err := c.Start(0, true); err != nil {
		return "bootstrap-node-did-not-start"
	}
	c.Nodes[0].Zero.VerifCampaign()
	if !c.ElectZero(400) {
		return "bootstrap-node-did-not-elect-itself"
	}
	c.Nodes[0].Joined = true
	for i := 1; i < n; i++ {
		if why := c.JoinSettled(i); why != "" {
			return why
		}
	}
	return ""
}

// JoinSettled starts node i, joins it through node 0 and waits until every member's zero group lists it.
func (c *Cluster) JoinSettled(i int) string {
	{
		if err := c.Start(i, false); err != nil {
			return "joiner-did-not-start"
		}
		if err := c.WhileTicking(3000, func() error { return c.Join(i, 0) }); err != nil {
			return "join-did-not-complete"
		}
		c.Nodes[i].Joined = true
		settled := false
		for r := 0; r < 1500 && !settled; r++ {
			settled = true
			for k := range c.Nodes {
				if !c.Nodes[k].Joined || !c.Nodes[k].Up() {
					continue
				}
				nodes := c.Nodes[k].Zero.VerifConfNodes()
				if nodes == nil {
					nodes = c.Nodes[k].Mon.MembersAt(c.Nodes[k].Zero.VerifStatus().Applied)
				}
				has := false
				for _, id := range nodes {
					if id == c.Nodes[i].Id {
						has = true
					}
				}
				if !has {
					settled = false
				}
			}
			if !settled {
				c.Tick(1)
				time.Sleep(100 * time.Microsecond)
			}
		}
		if !settled {
			return "join-did-not-settle"
		}
	}
	return ""
}

// ---- DataManager client shim ---------------------------------------------------------------------------------------

type dataShim struct {
	c  *Cluster
	to *Node
}

func (d *dataShim) Insert(ctx context.Context, in *pb.InsertRequest, _ ...grpc.CallOption) (*pb.EmptyMessage, error) {
	s, err := d.c.dataServer(d.to)
	if err != nil {
		return nil, err
	}
	return s.Insert(ctx, in)
}
func (d *dataShim) Update(ctx context.Context, in *pb.UpdateRequest, _ ...grpc.CallOption) (*pb.EmptyMessage, error) {
	s, err := d.c.dataServer(d.to)
	if err != nil {
		return nil, err
	}
	return s.Update(ctx, in)
}
func (d *dataShim) Remove(ctx context.Context, in *pb.RemoveRequest, _ ...grpc.CallOption) (*pb.EmptyMessage, error) {
	s, err := d.c.dataServer(d.to)
	if err != nil {
		return nil, err
	}
	return s.Remove(ctx, in)
}
func (d *dataShim) BatchInsert(ctx context.Context, in *pb.BatchRequest, _ ...grpc.CallOption) (*pb.BatchResponse, error) {
	s, err := d.c.dataServer(d.to)
	if err != nil {
		return nil, err
	}
	return s.BatchInsert(ctx, in)
}
func (d *dataShim) BatchUpdate(ctx context.Context, in *pb.BatchRequest, _ ...grpc.CallOption) (*pb.BatchResponse, error) {
	s, err := d.c.dataServer(d.to)
	if err != nil {
		return nil, err
	}
	return s.BatchUpdate(ctx, in)
}
func (d *dataShim) BatchRemove(ctx context.Context, in *pb.BatchRequest, _ ...grpc.CallOption) (*pb.BatchResponse, error) {
	s, err := d.c.dataServer(d.to)
	if err != nil {
		return nil, err
	}
	return s.BatchRemove(ctx, in)
}
func (d *dataShim) PartitionBatchInsert(ctx context.Context, in *pb.PartitionBatchRequest, _ ...grpc.CallOption) (*pb.BatchResponse, error) {
	s, err := d.c.dataServer(d.to)
	if err != nil {
		return nil, err
	}
	return s.PartitionBatchInsert(ctx, in)
}
func (d *dataShim) PartitionBatchUpdate(ctx context.Context, in *pb.PartitionBatchRequest, _ ...grpc.CallOption) (*pb.BatchResponse, error) {
	s, err := d.c.dataServer(d.to)
	if err != nil {
		return nil, err
	}
	return s.PartitionBatchUpdate(ctx, in)
}
func (d *dataShim) PartitionBatchRemove(ctx context.Context, in *pb.PartitionBatchRequest, _ ...grpc.CallOption) (*pb.BatchResponse, error) {
	s, err := d.c.dataServer(d.to)
	if err != nil {
		return nil, err
	}
	return s.PartitionBatchRemove(ctx, in)
}
func (d *dataShim) PartitionInfo(ctx context.Context, in *pb.PartitionInfoRequest, _ ...grpc.CallOption) (*pb.PartitionInfoResponse, error) {
	s, err := d.c.dataServer(d.to)
	if err != nil {
		return nil, err
	}
	return s.PartitionInfo(ctx, in)
}

// ---- Search client shim ---------------------------------------------------------------------------------------------

type searchShim struct {
	c  *Cluster
	to *Node
}

type collectStream struct {
	grpc.ServerStream
	ctx   context.Context
	items []*pb.SearchResultItem
}

func (s *collectStream) Send(i *pb.SearchResultItem) error { s.items = append(s.items, i); return nil }
func (s *collectStream) Context() context.Context          { return s.ctx }
func (s *collectStream) SetHeader(metadata.MD) error       { return nil }
func (s *collectStream) SendHeader(metadata.MD) error      { return nil }
func (s *collectStream) SetTrailer(metadata.MD)            {}

type replayStream struct {
	grpc.ClientStream
	ctx   context.Context
	items []*pb.SearchResultItem
	pos   int
}

func (r *replayStream) Recv() (*pb.SearchResultItem, error) {
	if r.pos < len(r.items) {
		r.pos++
		return r.items[r.pos-1], nil
	}
	return nil, io.EOF
}
func (r *replayStream) Header() (metadata.MD, error) { return nil, nil }
func (r *replayStream) Trailer() metadata.MD         { return nil }
func (r *replayStream) CloseSend() error             { return nil }
func (r *replayStream) Context() context.Context     { return r.ctx }

func (s *searchShim) Search(ctx context.Context, in *pb.SearchRequest, _ ...grpc.CallOption) (pb.Search_SearchClient, error) {
	srv, err := s.c.searchServer(s.to)
	if err != nil {
		return nil, err
	}
	st := &collectStream{ctx: ctx}
	if err := srv.Search(in, st); err != nil {
		return nil, err
	}
	return &replayStream{ctx: ctx, items: st.items}, nil
}

func (s *searchShim) SearchPartitions(ctx context.Context, in *pb.SearchPartitionsRequest, _ ...grpc.CallOption) (pb.Search_SearchPartitionsClient, error) {
	srv, err := s.c.searchServer(s.to)
	if err != nil {
		return nil, err
	}
	st := &collectStream{ctx: ctx}
	if err := srv.SearchPartitions(in, st); err != nil {
		return nil, err
	}
	return &replayStream{ctx: ctx, items: st.items}, nil
}
