// Package gen holds the generators and value pools shared by the checks.
package gen

import (
	"crypto/sha256"
	"encoding/binary"
	"fmt"
	"math"
	"strings"

	uuid "github.com/satori/go.uuid"
	"pgregory.net/rapid"
)

// ID returns the i-th id of the fixed pool. Index 0 is the nil UUID; odd
// indices differ from the preceding even index in the last bit only; the rest
// are pseudo-random but fixed, so a case (which stores indices) replays exactly.
func ID(i int) uuid.UUID {
	if i == 0 {
		return uuid.Nil
	}
	base := i
	if i%2 == 1 && i > 1 {
		base = i - 1
	}
	h := sha256.Sum256([]byte(fmt.Sprintf("verif-id-%d", base)))
	var u uuid.UUID
	copy(u[:], h[:16])
	if base != i {
		u[15] ^= 1
	}
	if i == 1 {
		// all-ones id: boundary words for UuidMod
		for j := range u {
			u[j] = 0xff
		}
	}
	return u
}

// IDHex is a short printable form.
func IDHex(u uuid.UUID) string { return fmt.Sprintf("%x", u[:4]) }

// Metadata shapes (index -> map); 0 is nil.
var MetaShapes = []map[string]string{
	nil,
	{},
	{"a": "1"},
	{"a": "2", "b": "x"},
	{"b": "y", "c": ""},
	{"": "empty-key"},
	{"k1": "v1", "k2": "v2", "k3": "v3", "k4": "v4", "k5": "v5"},
	{"a": "", "k1": ""},
	{"a": "\xff\xfe non-utf8"},
}

// BoundaryMetaShapes: the length limits of the snapshot format (key length uint8, value length uint16, count uint16).
// Index i >= len(MetaShapes) in Meta() selects BoundaryMetaShapes[i-len(MetaShapes)].
var BoundaryMetaShapes = []map[string]string{
	{strings.Repeat("k", 255): "at-the-key-limit"},
	{strings.Repeat("k", 256): "one-past-the-key-limit"},
	{"v": strings.Repeat("v", 65535)},
	{"v": strings.Repeat("v", 65536)},
	{strings.Repeat("K", 300): strings.Repeat("V", 70000), "a": "1"},
	// fewer characters than bytes: the format's limits are byte lengths
	{strings.Repeat("\u00e9", 128): "256-byte key of 128 characters"},
	{"v": strings.Repeat("\u00e9", 32768)},
	{strings.Repeat("\u00e9", 127) + "k": strings.Repeat("\u00e9", 32767) + "v"},
}

// Many-key shapes (selected by ManyKeysA / ManyKeysB): each fits the format's limit of 65535 entries, their union does not.
const (
	ManyKeysA = 1000001
	ManyKeysB = 1000002
)

func manyKeys(prefix string, n int) map[string]string {
	m := make(map[string]string, n)
	for i := 0; i < n; i++ {
		m[fmt.Sprintf("%s%05d", prefix, i)] = "x"
	}
	return m
}

// Meta returns a fresh copy of shape i (the code under test mutates maps it is given).
// Fat selects metadata of about 1.2 MB (20 values of 60000 bytes): an item that alone makes a partition snapshot larger
// than a mebibyte.
const Fat = 900001

func Meta(i int) map[string]string {
	var m map[string]string
	if i == Fat {
		fat := make(map[string]string, 20)
		for k := 0; k < 20; k++ {
			fat[fmt.Sprintf("fat%02d", k)] = strings.Repeat(string(rune('a'+k)), 60000)
		}
		return fat
	}
	if i == ManyKeysA {
		return manyKeys("a", 40000)
	} else if i == ManyKeysB {
		return manyKeys("b", 30000)
	}
	if i >= len(MetaShapes) {
		m = BoundaryMetaShapes[(i-len(MetaShapes))%len(BoundaryMetaShapes)]
	} else {
		m = MetaShapes[i]
	}
	if m == nil {
		return nil
	}
	c := make(map[string]string, len(m))
	for k, v := range m {
		c[k] = v
	}
	return c
}

// MetaFits reports whether the metadata fits the storage format (255-byte keys, 65535-byte values, 65535 entries).
func MetaFits(m map[string]string) bool {
	if len(m) > 65535 {
		return false
	}
	for k, v := range m {
		if len(k) > 255 || len(v) > 65535 {
			return false
		}
	}
	return true
}

// MetaString renders a map deterministically.
func MetaString(m map[string]string) string {
	if m == nil {
		return "nil"
	}
	ks := make([]string, 0, len(m))
	for k := range m {
		ks = append(ks, k)
	}
	sortStrings(ks)
	var b strings.Builder
	b.WriteString("{")
	for i, k := range ks {
		if i > 0 {
			b.WriteString(",")
		}
		if v := m[k]; len(v) > 200 {
			// long values are rendered by length and digest
			h := sha256.Sum256([]byte(v))
			fmt.Fprintf(&b, "%q:<%d bytes %x>", k, len(v), h[:4])
		} else {
			fmt.Fprintf(&b, "%q:%q", k, v)
		}
	}
	b.WriteString("}")
	return b.String()
}

func sortStrings(a []string) {
	for i := 1; i < len(a); i++ {
		for j := i; j > 0 && a[j] < a[j-1]; j-- {
			a[j], a[j-1] = a[j-1], a[j]
		}
	}
}

// MetaEqual treats nil and empty as equal (both mean "no metadata").
func MetaEqual(a, b map[string]string) bool {
	if len(a) != len(b) {
		return false
	}
	for k, v := range a {
		if w, ok := b[k]; !ok || w != v {
			return false
		}
	}
	return true
}

// Vector draws a vector of the given dimension: small-integer grid (forces ties
// and exact arithmetic) or ordinary finite floats. nonZero forces a non-zero
// vector (cosine distance is undefined on the zero vector).
func Vector(dim int, nonZero bool) *rapid.Generator[[]float32] {
	return rapid.Custom(func(t *rapid.T) []float32 {
		grid := rapid.IntRange(0, 3).Draw(t, "grid") > 0
		v := make([]float32, dim)
		for i := range v {
			if grid {
				v[i] = float32(rapid.IntRange(-3, 3).Draw(t, "g"))
			} else {
				v[i] = rapid.Float32Range(-1000, 1000).Draw(t, "f")
				if v[i] > -1e-3 && v[i] < 1e-3 {
					// keep squares representable: a component is 0 or 1e-3 <= |x| <= 1e3
					// (under/overflowing magnitudes are C15's subject)
					v[i] = 0
				}
			}
		}
		if nonZero {
			z := true
			for _, x := range v {
				if x != 0 {
					z = false
				}
			}
			if z {
				v[rapid.IntRange(0, dim-1).Draw(t, "nz")] = 1
			}
		}
		return v
	})
}

// Bits returns the IEEE bit patterns (bit-for-bit comparison of vectors).
func Bits(v []float32) []uint32 {
	b := make([]uint32, len(v))
	for i, x := range v {
		b[i] = math.Float32bits(x)
	}
	return b
}

func BitsEqual(a, b []float32) bool {
	if len(a) != len(b) {
		return false
	}
	for i := range a {
		if math.Float32bits(a[i]) != math.Float32bits(b[i]) {
			return false
		}
	}
	return true
}

// Level draws an HNSW level 0..6, geometric-ish.
func Level() *rapid.Generator[int] {
	return rapid.SampledFrom([]int{0, 0, 0, 0, 0, 0, 0, 0, 1, 1, 1, 1, 2, 2, 3, 4, 5, 6})
}

// U64 helper for hashing.
func U64(b []byte) uint64 { return binary.BigEndian.Uint64(b) }
