// C10 on a cluster wired like server.go (package ctl): items are written through every API path (single and batch
// insert, update, remove) entering at any member - one that hosts the owner partition or one that has to proxy - and
// afterwards every member's every local partition index is inspected: an id is held by the replicas of its owner
// partition (reference formula, math/big) and by no other partition; later operations on the id issued through other
// members find it; a restart of every member changes nothing.
package c10

import (
	"context"
	"fmt"
	"strings"
	"sync"
	"testing"
	"time"

	etcdRaft "github.com/coreos/etcd/raft"
	pb "github.com/marekgalovic/anndb/protobuf"
	"github.com/marekgalovic/anndb/storage"
	uuid "github.com/satori/go.uuid"
	"pgregory.net/rapid"
	"verifharness/ctl"
	"verifharness/pbt"
	"verifharness/sim"
)

const (
	RInsert = iota
	RUpdate
	RRemove
	RBatchInsert
	RBatchUpdate
	RBatchRemove
	RRestartAll
	RInspect
	RCompact // every member snapshots and compacts its zero-group log: a restart then rebuilds the catalogue from the snapshot
)

var rNames = []string{"insert", "update", "remove", "batchInsert", "batchUpdate", "batchRemove", "restartAll", "inspect", "compactZeroLogs"}

type RStep struct {
	K    int   `json:"k"`
	Via  int   `json:"via"`
	Keys []int `json:"keys,omitempty"` // indexes into Ids (one for the single forms)
}

type RCase struct {
	Members int        `json:"members"`
	P       int        `json:"p"`
	R       int        `json:"r"`
	Ids     [][16]byte `json:"ids"`
	Steps   []RStep    `json:"steps"`
}

func (c RCase) String() string {
	var p []string
	for _, s := range c.Steps {
		if s.K <= RBatchRemove {
			p = append(p, fmt.Sprintf("%s(%v via %d)", rNames[s.K], s.Keys, s.Via))
		} else {
			p = append(p, rNames[s.K])
		}
	}
	return fmt.Sprintf("members=%d partitions=%d replication=%d ids=%d: %s", c.Members, c.P, c.R, len(c.Ids), strings.Join(p, " "))
}

func genRCase(t *rapid.T) RCase {
	c := RCase{Members: rapid.SampledFrom([]int{1, 2, 3, 3}).Draw(t, "members"), P: rapid.SampledFrom([]int{1, 2, 3, 4, 5, 7}).Draw(t, "p")}
	c.R = rapid.SampledFrom([]int{1, 1, 2, 3}).Draw(t, "r")
	c.Ids = rapid.SliceOfNDistinct(genID(), 2, 12, rapid.ID[[16]byte]).Draw(t, "ids")
	step := rapid.Custom(func(t *rapid.T) RStep {
		k := rapid.SampledFrom([]int{RInsert, RInsert, RInsert, RUpdate, RRemove, RBatchInsert, RBatchInsert, RBatchInsert, RBatchUpdate, RBatchRemove, RRestartAll, RRestartAll, RInspect, RCompact}).Draw(t, "k")
		s := RStep{K: k, Via: rapid.IntRange(0, c.Members-1).Draw(t, "via")}
		switch {
		case k <= RRemove:
			s.Keys = []int{rapid.IntRange(0, len(c.Ids)-1).Draw(t, "key")}
		case k <= RBatchRemove:
			s.Keys = rapid.SliceOfNDistinct(rapid.IntRange(0, len(c.Ids)-1), 1, 8, rapid.ID[int]).Draw(t, "keys")
		}
		return s
	})
	c.Steps = rapid.SliceOfN(step, 4, pbt.Pick(16, 32)).Draw(t, "steps")
	return c
}

var rTrap sync.Once

func checkRCluster(c RCase, o *pbt.Obs) *pbt.Failure {
	done := make(chan *pbt.Failure, 1)
	go func() { done <- runRCluster(c, o) }()
	select {
	case f := <-done:
		return f
	case <-time.After(150 * time.Second):
		o.Inconclusive("case-did-not-end-within-150s")
		return nil
	}
}

func runRCluster(c RCase, o *pbt.Obs) *pbt.Failure {
	rTrap.Do(sim.InstallFatalTrap)
	sim.TakeUnexpectedFatal()
	cl := ctl.New(c.Members)
	defer cl.Close()
	if why := cl.Form(); why != "" {
		o.Inconclusive(why)
		return nil
	}
	meta, err := cl.Create(0, &pb.Dataset{Dimension: 2, PartitionCount: uint32(c.P), ReplicationFactor: uint32(c.R)}, 500*time.Millisecond, 5000)
	if err != nil {
		o.Inconclusive("dataset-not-created")
		return nil
	}
	dsId := uuid.FromBytesOrNil(meta.GetId())
	hosts := func(i int, ds *storage.Dataset, p int) bool {
		for _, id := range ds.VerifPartitionNodeIds(p) {
			if id == cl.Nodes[i].Id {
				return true
			}
		}
		return false
	}
	settle := func(rounds int) bool {
		stable := 0
		for r := 0; r < rounds; r++ {
			cl.Wire()
			ok := true
			for p := 0; p < c.P && ok; p++ {
				var leaderCommit uint64
				leaders := 0
				var applied []uint64
				for i := 0; i < c.Members && ok; i++ {
					ds := cl.Dataset(i, dsId)
					if ds == nil {
						ok = false
						break
					}
					if !hosts(i, ds, p) {
						continue
					}
					g := ds.VerifPartitionRaft(p)
					if g == nil {
						ok = false
						break
					}
					if _, onLoop := g.VerifLastApplied(); !onLoop {
						ok = false
						break
					}
					st := g.VerifStatus()
					if st.RaftState == etcdRaft.StateLeader {
						leaders++
						leaderCommit = st.Commit
					}
					applied = append(applied, st.Applied)
				}
				if leaders != 1 {
					ok = false
				}
				for _, a := range applied {
					if a != leaderCommit {
						ok = false
					}
				}
			}
			if ok {
				stable++
				if stable >= 3 {
					return true
				}
			} else {
				stable = 0
			}
			cl.Tick(1)
			time.Sleep(100 * time.Microsecond)
		}
		return false
	}
	if !settle(4000) {
		o.Inconclusive("partitions-did-not-settle-after-creation")
		return nil
	}
	// the reference map: what each id holds (version), -1 = absent; tainted = a write ended without a verdict
	n := len(c.Ids)
	ver := make([]int, n)
	for i := range ver {
		ver[i] = -1
	}
	tainted := make([]bool, n)
	proxied, inspected := 0, 0
	compacted := false
	vec := func(v int) []float32 { return []float32{1, float32(v)} }
	inspect := func(where string) *pbt.Failure {
		if !settle(6000) {
			o.Label("inspection-skipped-not-settled")
			return nil
		}
		for i := 0; i < c.Members; i++ {
			ds := cl.Dataset(i, dsId)
			if ds == nil {
				return nil
			}
			for k, raw := range c.Ids {
				if tainted[k] {
					continue
				}
				id := uuid.UUID(raw)
				owner := int(refOwner(id, uint64(c.P)))
				if got := ds.VerifPartitionOf(id); got != owner {
					return pbt.Failf("C10:single-route", "%s: member %d routes %x to partition %d, the owner is %d of %d; history: %s", where, i, raw, got, owner, c.P, c.String())
				}
				for p := 0; p < c.P; p++ {
					if !hosts(i, ds, p) {
						continue
					}
					v, err := ds.VerifPartitionIndex(p).Get(id)
					switch {
					case p != owner && err == nil:
						return pbt.Failf("C10:item-in-foreign-partition", "%s: member %d holds %x (value %v) in partition %d, its owner is partition %d of %d; history: %s", where, i, raw, v, p, owner, c.P, c.String())
					case p == owner && ver[k] >= 0 && err != nil:
						return pbt.Failf("C10:item-not-in-owner-partition", "%s: %x (acknowledged version %d) is not in its owner partition %d on member %d: %v; history: %s", where, raw, ver[k], owner, i, err, c.String())
					case p == owner && ver[k] >= 0 && (len(v) != 2 || int(v[1]) != ver[k]):
						return pbt.Failf("C10:item-not-in-owner-partition", "%s: %x holds %v in its owner partition on member %d, the last acknowledged write stored version %d; history: %s", where, raw, v, i, ver[k], c.String())
					case p == owner && ver[k] < 0 && err == nil:
						return pbt.Failf("C10:removed-item-present", "%s: %x holds %v on member %d although it is absent by the acknowledged history; history: %s", where, raw, v, i, c.String())
					}
				}
			}
		}
		inspected++
		o.Label("every-local-index-inspected")
		return nil
	}
	verdict := func(k int, insert, remove bool, err error, v int, where string) *pbt.Failure {
		exists := err != nil && strings.Contains(err.Error(), "Item already exists")
		notFound := err != nil && strings.Contains(err.Error(), "Item not found")
		switch {
		case err == nil:
			if !tainted[k] {
				if insert && ver[k] >= 0 {
					return pbt.Failf("C10:later-operation-misses-item", "%s: insert of %x is acknowledged although version %d was acknowledged before (the earlier write is not where this one looked); history: %s", where, c.Ids[k], ver[k], c.String())
				}
				if !insert && ver[k] < 0 {
					return pbt.Failf("C10:operation-on-absent-item-acknowledged", "%s: %x is absent by the acknowledged history, yet the operation is acknowledged; history: %s", where, c.Ids[k], c.String())
				}
			}
			if remove {
				ver[k] = -1
			} else {
				ver[k] = v
			}
		case exists && insert:
			if !tainted[k] && ver[k] < 0 {
				return pbt.Failf("C10:insert-refused-as-existing", "%s: insert of the absent id %x is refused with %q; history: %s", where, c.Ids[k], err, c.String())
			}
		case notFound && !insert:
			if !tainted[k] && ver[k] >= 0 {
				return pbt.Failf("C10:later-operation-misses-item", "%s: %x (version %d acknowledged) is reported %q by an operation entering through another path; history: %s", where, c.Ids[k], ver[k], err, c.String())
			}
		default:
			tainted[k] = true
			o.Label("write-without-verdict")
		}
		return nil
	}
	for si, s := range c.Steps {
		where := fmt.Sprintf("step %d %s", si, rNames[s.K])
		v := si + 1
		cl.Wire()
		via := s.Via % c.Members
		ds := cl.Dataset(via, dsId)
		switch {
		case s.K <= RRemove:
			if ds == nil {
				continue
			}
			k := s.Keys[0]
			id := uuid.UUID(c.Ids[k])
			if !hosts(via, ds, int(refOwner(id, uint64(c.P)))) {
				proxied++
			}
			err := cl.WhileTicking(6000, func() error {
				ctx, cancel := context.WithTimeout(context.Background(), 400*time.Millisecond)
				defer cancel()
				switch s.K {
				case RInsert:
					return ds.Insert(ctx, id, vec(v), nil)
				case RUpdate:
					return ds.Update(ctx, id, vec(v), nil)
				}
				return ds.Remove(ctx, id)
			})
			if err == ctl.ErrStuck {
				o.Inconclusive("write-did-not-return")
				return nil
			}
			if f := verdict(k, s.K == RInsert, s.K == RRemove, err, v, where); f != nil {
				return f
			}
		case s.K <= RBatchRemove:
			if ds == nil {
				continue
			}
			var items []*pb.BatchItem
			remote := map[int]bool{}
			for _, k := range s.Keys {
				it := &pb.BatchItem{Id: append([]byte(nil), c.Ids[k][:]...)}
				if s.K != RBatchRemove {
					it.Value = vec(v)
				}
				items = append(items, it)
				if p := int(refOwner(uuid.UUID(c.Ids[k]), uint64(c.P))); !hosts(via, ds, p) {
					remote[p] = true
				}
			}
			if len(remote) > 0 {
				proxied++
			}
			if len(remote) >= 2 {
				o.Label("batch-with-two-or-more-proxied-partition-groups")
			}
			var errs map[uuid.UUID]error
			err := cl.WhileTicking(6000, func() error {
				ctx, cancel := context.WithTimeout(context.Background(), 400*time.Millisecond)
				defer cancel()
				var err error
				switch s.K {
				case RBatchInsert:
					errs, err = ds.BatchInsert(ctx, items)
				case RBatchUpdate:
					errs, err = ds.BatchUpdate(ctx, items)
				default:
					errs, err = ds.BatchRemove(ctx, items)
				}
				return err
			})
			if err == ctl.ErrStuck {
				o.Inconclusive("write-did-not-return")
				return nil
			}
			for _, k := range s.Keys {
				e := err
				if e == nil {
					e = errs[uuid.UUID(c.Ids[k])]
				}
				if f := verdict(k, s.K == RBatchInsert, s.K == RBatchRemove, e, v, where); f != nil {
					return f
				}
			}
		case s.K == RRestartAll:
			for i := 0; i < c.Members; i++ {
				if !cl.Kill(i) {
					o.Inconclusive("killed-node-did-not-stop")
					return nil
				}
			}
			time.Sleep(200 * time.Microsecond)
			for i := 0; i < c.Members; i++ {
				if err := cl.Start(i, i == 0); err != nil {
					o.Inconclusive("member-did-not-start")
					return nil
				}
			}
			cl.ElectZero(1500)
			o.Label("every-member-restarted")
			if compacted {
				o.Label("every-member-restarted-from-a-catalogue-snapshot")
			}
			if f := inspect(where); f != nil {
				return f
			}
		case s.K == RInspect:
			if f := inspect(where); f != nil {
				return f
			}
		case s.K == RCompact:
			for i := 0; i < c.Members; i++ {
				if err, ran := cl.Nodes[i].Zero.VerifSnapshotNow(); ran && err == nil {
					compacted = true
				}
			}
		}
		cl.Tick(1)
		if f := sim.TakeUnexpectedFatal(); f != "" {
			return pbt.Failf("C10:fatal-in-ready-loop", "%s: log.Fatal without an injected crash: %.500s; history: %s", where, f, c.String())
		}
	}
	if f := inspect("end of history"); f != nil {
		return f
	}
	if c.P >= 2 && proxied >= 1 && inspected >= 1 {
		o.NonTrivial()
	}
	o.Note(c.String())
	return nil
}

func TestRoutingOnCluster(t *testing.T) {
	pbt.Run(t, pbt.Prop[RCase]{
		ID: "C10", Name: "TestRoutingOnCluster",
		Rule:    "rapid-generated histories on 1-3 simulated nodes wired like server.go (package ctl: real zero groups, allocator-loaded partition raft groups, proxied requests through in-memory DataManager clients): a dataset with 1-7 partitions and replication factor 1-3; 2-12 generated 128-bit ids (the owner-function generator: boundary words, equal halves) are written through single and batch insert/update/remove entering at any member, hosting the owner partition or not; every member may be restarted (all at once), also after the zero-group logs were compacted (the catalogue is then rebuilt from a snapshot); oracle: whenever every replica has applied its leader's commit index, every member's every local partition index is read: an id without an abandoned write is held by its owner partition (math/big reference) with the last acknowledged version and by no other partition; every verdict (acknowledged / already exists / not found) agrees with the acknowledged history whatever member and API path the earlier writes used; non-trivial = >=2 partitions, >=1 write entering at a member that does not host the owner, >=1 inspection; distinct = distinct case JSON",
		Gen:     genRCase,
		Check:   checkRCluster,
		Journal: true,
	})
}
