// C10 — item routing is a stable, total function of the id and the partition count.
package c10

import (
	"encoding/binary"
	"fmt"
	"math/big"
	"testing"

	pb "github.com/marekgalovic/anndb/protobuf"
	"github.com/marekgalovic/anndb/utils"
	uuid "github.com/satori/go.uuid"
	"pgregory.net/rapid"
	"verifharness/lite"
	"verifharness/pbt"
)

func TestMain(m *testing.M) { pbt.Main(m) }

// reference: ((lo mod n) + (hi mod n)) mod n with arbitrary precision
func refOwner(id uuid.UUID, n uint64) uint64 {
	lo := new(big.Int).SetUint64(binary.LittleEndian.Uint64(id[:8]))
	hi := new(big.Int).SetUint64(binary.LittleEndian.Uint64(id[8:]))
	N := new(big.Int).SetUint64(n)
	lo.Mod(lo, N)
	hi.Mod(hi, N)
	lo.Add(lo, hi)
	lo.Mod(lo, N)
	return lo.Uint64()
}

func genID() *rapid.Generator[[16]byte] {
	word := rapid.OneOf(
		rapid.Uint64(),
		rapid.SampledFrom([]uint64{0, 1, ^uint64(0), ^uint64(0) - 1, 1 << 63, 1<<63 - 1, 1 << 32, 1<<32 - 1}),
		rapid.Custom(func(t *rapid.T) uint64 { return ^uint64(0) - uint64(rapid.IntRange(0, 2048).Draw(t, "below-max")) }),
	)
	return rapid.Custom(func(t *rapid.T) [16]byte {
		var b [16]byte
		lo := word.Draw(t, "lo")
		hi := word.Draw(t, "hi")
		if rapid.IntRange(0, 9).Draw(t, "equal-halves") == 0 {
			hi = lo
		}
		binary.LittleEndian.PutUint64(b[:8], lo)
		binary.LittleEndian.PutUint64(b[8:], hi)
		return b
	})
}

type PureCase struct {
	Ids [][16]byte `json:"ids"`
	N   int        `json:"n"`
}

func TestOwnerFunction(t *testing.T) {
	pbt.Run(t, pbt.Prop[PureCase]{
		ID: "C10", Name: "TestOwnerFunction",
		Rule: "rapid-generated batches of 1-16 128-bit ids (uniform words, boundary words 0/1/2^64-1/2^63/2^32, words within 2048 of 2^64, equal halves) x partition counts 1..1024: utils.UuidMod(id,n) is in [0,n) and equals ((lo mod n)+(hi mod n)) mod n computed with math/big; non-trivial = n>=2; distinct = distinct case JSON",
		Gen: func(t *rapid.T) PureCase {
			return PureCase{Ids: rapid.SliceOfN(genID(), 1, 16).Draw(t, "ids"), N: rapid.IntRange(1, 1024).Draw(t, "n")}
		},
		Check: func(c PureCase, o *pbt.Obs) *pbt.Failure {
			for _, id := range c.Ids {
				got := utils.UuidMod(uuid.UUID(id), uint64(c.N))
				if got >= uint64(c.N) {
					return pbt.Failf("C10:out-of-range", "UuidMod(%x,%d)=%d is outside [0,%d)", id, c.N, got, c.N)
				}
				if want := refOwner(uuid.UUID(id), uint64(c.N)); got != want {
					return pbt.Failf("C10:owner-formula", "UuidMod(%x,%d)=%d, reference %d", id, c.N, got, want)
				}
			}
			if c.N >= 2 {
				o.NonTrivial()
			}
			return nil
		},
	})
}

// ---- hook level: single-item routing vs batch grouping on a real Dataset ----

type RouteCase struct {
	P   int        `json:"p"`
	Ids [][16]byte `json:"ids"`
	// Place: per partition (cyclic) 0 = on node 0, 1 = on node 1, 2 = on both, 3 = on no node (a partition that lost its last
	// replica: the catalogue keeps it and the allocator looks after it); empty = partition i on node i mod 2
	Place []int `json:"place,omitempty"`
}

func TestBatchGroupingMatchesSingleRouting(t *testing.T) {
	pbt.Run(t, pbt.Prop[RouteCase]{
		ID: "C10", Name: "TestBatchGroupingMatchesSingleRouting",
		Rule: "a real storage.Dataset with P in 1..48 partitions (layer B0; partition i on node i mod 2, or a generated placement in which partitions sit on node 0, node 1, both or no node at all) and 1-24 generated ids (same id generator, in-batch repeats allowed): the partition chosen by the single-item path (getPartitionForId) equals the reference owner, the batch path (groupBatchItemsByPartition) puts every item into exactly that partition's group and loses or duplicates none, and a second Dataset object built from the same metadata (a restarted node) routes identically; non-trivial = P>=2 and >=2 ids; distinct = distinct case JSON",
		Gen: func(t *rapid.T) RouteCase {
			return RouteCase{P: rapid.SampledFrom([]int{1, 2, 3, 4, 5, 6, 7, 8, 12, 16, 31, 48}).Draw(t, "p"), Ids: rapid.SliceOfN(genID(), 1, 24).Draw(t, "ids"),
				Place: rapid.OneOf(rapid.Just([]int(nil)), rapid.SliceOfN(rapid.SampledFrom([]int{0, 1, 2, 3, 3}), 1, 8)).Draw(t, "place")}
		},
		Check: func(c RouteCase, o *pbt.Obs) *pbt.Failure {
			placement := make([][]int, c.P)
			for i := range placement {
				placement[i] = []int{i % 2}
				if len(c.Place) > 0 {
					placement[i] = [][]int{{0}, {1}, {0, 1}, {}}[c.Place[i%len(c.Place)]]
					if len(placement[i]) == 0 {
						o.Label("partition-without-replicas")
					}
				}
			}
			cl := lite.New(2, 2, 0, placement)
			defer cl.Close()
			d0, d1 := cl.Nodes[0].Dataset, cl.Nodes[1].Dataset
			var items []*pb.BatchItem
			for _, id := range c.Ids {
				items = append(items, &pb.BatchItem{Id: append([]byte(nil), id[:]...)})
			}
			groups := d0.VerifGroupBatch(items)
			where := map[string][]int{}
			total := 0
			for p, its := range groups {
				for _, it := range its {
					where[string(it.GetId())] = append(where[string(it.GetId())], p)
					total++
				}
			}
			if total != len(items) {
				return pbt.Failf("C10:batch-lost-items", "P=%d: batch grouping holds %d items, %d were submitted", c.P, total, len(items))
			}
			for _, id := range c.Ids {
				want := int(refOwner(uuid.UUID(id), uint64(c.P)))
				if got := d0.VerifPartitionOf(uuid.UUID(id)); got != want {
					return pbt.Failf("C10:single-route", "P=%d: single-item path routes %x to partition %d, owner is %d", c.P, id, got, want)
				}
				if got := d1.VerifPartitionOf(uuid.UUID(id)); got != want {
					return pbt.Failf("C10:route-differs-between-nodes", "P=%d: second node routes %x to partition %d, owner is %d", c.P, id, got, want)
				}
				for _, p := range where[string(id[:])] {
					if p != want {
						return pbt.Failf("C10:batch-route", "P=%d: batch path groups %x under partition %d, single-item path and owner function say %d", c.P, id, p, want)
					}
				}
			}
			if c.P >= 2 && len(c.Ids) >= 2 {
				o.NonTrivial()
			}
			o.Note(fmt.Sprintf("P=%d ids=%d", c.P, len(c.Ids)))
			return nil
		},
	})
}
