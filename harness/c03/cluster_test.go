// C03 on a cluster wired like server.go (package ctl): the dataset is created through the real DatasetManager and
// committed by real zero groups, every hosting node loads its partitions' raft groups through the real allocator, writes
// enter through any member's Dataset API (proxied to a hosting node where needed) and nodes are killed between two
// writes and started again over their stores - one at a time or all of them - while partition groups compact their logs,
// so that a replica that was down catches up from its peers' log or from a snapshot.
package c03

import (
	"context"
	"fmt"
	"os"
	"sort"
	"strings"
	"sync"
	"testing"
	"time"

	etcdRaft "github.com/coreos/etcd/raft"
	pb "github.com/marekgalovic/anndb/protobuf"
	"github.com/marekgalovic/anndb/storage"
	uuid "github.com/satori/go.uuid"
	"pgregory.net/rapid"
	"verifharness/ctl"
	"verifharness/gen"
	"verifharness/pbt"
	"verifharness/sim"
)

const (
	DInsert = iota
	DUpdate
	DRemove
	DBatchInsert
	DBatchRemove
	DKill       // member A dies (no-op if that would leave no member up)
	DStart      // every member that is down starts again
	DRestartAll // every member dies, then all start again
	DSnapshot   // member A snapshots and compacts every partition group it hosts
	DRead       // judge the contents through every member
	DTick
	DLag // macro: member A dies, the keys are written through the others, every live member compacts, A starts again
	DJoinLate // the member left out at formation joins: allocators extend the under-replicated partitions they lead by it
	DKillDuring // member A dies N ticks into a write of Key that entered through member Via (a crash at an instant of the write)
	DConcurrent // three callers write at the same time, each its own keys (key mod 3), each through its own member
)

var dNames = []string{"insert", "update", "remove", "batchInsert", "batchRemove", "kill", "start", "restartAll", "snapshot", "read", "tick", "lag", "joinLate", "killDuringWrite", "concurrent"}

type DStep struct {
	K    int   `json:"k"`
	Via  int   `json:"via,omitempty"`
	A    int   `json:"a,omitempty"`
	Key  int   `json:"key,omitempty"`
	Keys []int `json:"keys,omitempty"`
	N    int   `json:"n,omitempty"`
}

type DCase struct {
	Members int `json:"members"`
	// Late: the last member joins at a joinLate step of the history (the dataset is created without it)
	Late bool `json:"late,omitempty"`
	P       int     `json:"p"`
	R       int     `json:"r"`
	Steps   []DStep `json:"steps"`
}

func (c DCase) String() string {
	var p []string
	for _, s := range c.Steps {
		switch {
		case s.K <= DRemove:
			p = append(p, fmt.Sprintf("%s(%d via %d)", dNames[s.K], s.Key, s.Via))
		case s.K <= DBatchRemove:
			p = append(p, fmt.Sprintf("%s(%v via %d)", dNames[s.K], s.Keys, s.Via))
		case s.K == DLag:
			p = append(p, fmt.Sprintf("lag(%d misses %v)", s.A, s.Keys))
		case s.K == DConcurrent:
			p = append(p, fmt.Sprintf("concurrent(%v from member %d on)", s.Keys, s.Via))
		case s.K == DKillDuring:
			p = append(p, fmt.Sprintf("killDuringWrite(%d dies %d ticks into a write of %d via %d)", s.A, s.N, s.Key, s.Via))
		case s.K == DKill || s.K == DSnapshot:
			p = append(p, fmt.Sprintf("%s(%d)", dNames[s.K], s.A))
		default:
			p = append(p, dNames[s.K])
		}
	}
	return fmt.Sprintf("members=%d late=%v partitions=%d replication=%d: %s", c.Members, c.Late, c.P, c.R, strings.Join(p, " "))
}

const dKeys = 10

func genDCase(t *rapid.T) DCase {
	c := DCase{Members: rapid.SampledFrom([]int{1, 2, 3, 3, 3}).Draw(t, "members"), P: rapid.IntRange(1, 3).Draw(t, "p")}
	c.R = rapid.IntRange(1, 3).Draw(t, "r")
	c.Late = c.Members >= 2 && rapid.IntRange(0, 2).Draw(t, "late") == 0
	if c.Late && rapid.Bool().Draw(t, "fullrepl") {
		c.R = c.Members // under-replicated until the late member has joined
	}
	step := rapid.Custom(func(t *rapid.T) DStep {
		k := rapid.SampledFrom([]int{DInsert, DInsert, DInsert, DInsert, DInsert, DUpdate, DUpdate, DRemove, DRemove, DBatchInsert, DBatchInsert, DBatchRemove,
			DKill, DKill, DStart, DStart, DRestartAll, DSnapshot, DSnapshot, DRead, DTick, DLag, DJoinLate, DKillDuring, DKillDuring, DConcurrent, DConcurrent}).Draw(t, "k")
		s := DStep{K: k, Via: rapid.IntRange(0, c.Members-1).Draw(t, "via"), A: rapid.IntRange(0, c.Members-1).Draw(t, "a")}
		switch k {
		case DInsert, DUpdate, DRemove:
			s.Key = rapid.IntRange(0, dKeys-1).Draw(t, "key")
		case DKillDuring:
			s.Key = rapid.IntRange(0, dKeys-1).Draw(t, "key")
			s.N = rapid.IntRange(0, 6).Draw(t, "ticks")
		case DBatchInsert, DBatchRemove:
			s.Keys = rapid.SliceOfNDistinct(rapid.IntRange(0, dKeys-1), 1, 4, rapid.ID[int]).Draw(t, "keys")
		case DLag:
			s.Keys = rapid.SliceOfNDistinct(rapid.IntRange(0, dKeys-1), 1, 5, rapid.ID[int]).Draw(t, "keys")
		case DConcurrent:
			s.Keys = rapid.SliceOfN(rapid.IntRange(0, dKeys-1), 2, 9).Draw(t, "keys")
		case DTick:
			s.N = rapid.SampledFrom([]int{1, 5, 25}).Draw(t, "n")
		}
		return s
	})
	c.Steps = rapid.SliceOfN(step, 8, pbt.Pick(24, 40)).Draw(t, "steps")
	return c
}

// what a key may hold: a set of (present, version) states; one element = known
type dState struct {
	present bool
	ver     int
}

type dModel struct {
	st      [dKeys]dState
	tainted [dKeys]bool // a write of the key ended without a verdict: it may apply now, later or never
}

var dTrap sync.Once

func checkDCluster(c DCase, o *pbt.Obs) *pbt.Failure {
	done := make(chan *pbt.Failure, 1)
	go func() { done <- runDCluster(c, o) }()
	select {
	case f := <-done:
		return f
	case <-time.After(150 * time.Second):
		o.Inconclusive("case-did-not-end-within-150s")
		return nil
	}
}

func dKey(k int) uuid.UUID { return gen.ID(9000 + k) }

func runDCluster(c DCase, o *pbt.Obs) *pbt.Failure {
	dTrap.Do(sim.InstallFatalTrap)
	sim.TakeUnexpectedFatal()
	cl := ctl.New(c.Members)
	defer cl.Close()
	founders := c.Members
	if c.Late {
		founders--
	}
	member := func(i int) bool { return cl.Nodes[i].Joined } // has joined the cluster (it may be down)
	if why := cl.FormFirst(founders); why != "" {
		o.Inconclusive(why)
		return nil
	}
	meta, err := cl.Create(0, &pb.Dataset{Dimension: 2, PartitionCount: uint32(c.P), ReplicationFactor: uint32(c.R)}, 500*time.Millisecond, 5000)
	if err != nil {
		o.Inconclusive("dataset-not-created")
		return nil
	}
	dsId := uuid.FromBytesOrNil(meta.GetId())
	up := func(i int) bool { return cl.Nodes[i].Up() }
	allUp := func() bool {
		for i := 0; i < c.Members; i++ {
			if member(i) && !up(i) {
				return false
			}
		}
		return true
	}
	// hosts(ds, p): does the node holding ds list itself as a replica of partition p
	hosts := func(i int, ds *storage.Dataset, p int) bool {
		for _, id := range ds.VerifPartitionNodeIds(p) {
			if id == cl.Nodes[i].Id {
				return true
			}
		}
		return false
	}
	// settle: every live member holds the dataset, every partition has a leader among the live replicas and every live
	// replica has applied what the leader has committed, twice in a row with logical time in between
	settle := func(rounds int) bool {
		stable := 0
		for r := 0; r < rounds; r++ {
			cl.Wire()
			ok := true
			for p := 0; p < c.P && ok; p++ {
				var leaderCommit uint64
				leaders := 0
				var applied []uint64
				for i := 0; i < c.Members && ok; i++ {
					if !up(i) {
						continue
					}
					ds := cl.Dataset(i, dsId)
					if ds == nil {
						ok = false
						break
					}
					if !hosts(i, ds, p) {
						continue
					}
					g := ds.VerifPartitionRaft(p)
					if g == nil {
						ok = false
						break
					}
					st := g.VerifStatus()
					if st.RaftState == etcdRaft.StateLeader {
						leaders++
						leaderCommit = st.Commit
					}
					// (the library's applied index: it is the local snapshot's index after a restart and moves on when the
					// ready loop has processed a batch of committed entries and called Advance)
					if _, onLoop := g.VerifLastApplied(); !onLoop {
						ok = false
						break
					}
					applied = append(applied, g.VerifStatus().Applied)
				}
				if leaders != 1 {
					ok = false
				}
				for _, a := range applied {
					if a != leaderCommit {
						ok = false
					}
				}
			}
			if ok {
				stable++
				if stable >= 3 {
					return true
				}
			} else {
				stable = 0
			}
			cl.Tick(1)
			time.Sleep(100 * time.Microsecond)
		}
		return false
	}
	if !settle(4000) {
		o.Inconclusive("partitions-did-not-settle-after-creation")
		return nil
	}
	var m dModel
	acked, judgedReads, afterRestartAll, catchups := 0, 0, 0, 0
	insertOnly := true // no update or removal was attempted so far
	ackedAtKill, compactedBehind := -1, false // a member is down since `ackedAtKill` acknowledged writes; a partition log was compacted after further ones
	restartedAll := false
	pickVia := func(v int) int {
		for k := 0; k < c.Members; k++ {
			if up((v + k) % c.Members) {
				return (v + k) % c.Members
			}
		}
		return -1
	}
	vec := func(k, ver int) []float32 { return []float32{float32(k + 1), float32(ver)} }
	// judge: with every member up and settled, every hosting member's index holds exactly what the model says for
	// every key whose writes all ended with a verdict; Len and a wide search through every member agree with it
	// degraded: with a member down, a search or a size request through a live member either fails or covers every
	// partition - a success while some partition has no live replica would be a partial answer with a success status
	degraded := func(where string) *pbt.Failure {
		via := pickVia(0)
		if via < 0 {
			return nil
		}
		ds := cl.Dataset(via, dsId)
		if ds == nil {
			return nil
		}
		orphan := -1
		for p := 0; p < c.P; p++ {
			live := false
			for _, id := range ds.VerifPartitionNodeIds(p) {
				for i := 0; i < c.Members; i++ {
					if cl.Nodes[i].Id == id && up(i) {
						live = true
					}
				}
			}
			if !live {
				orphan = p
			}
		}
		for _, viaI := range []int{pickVia(0), pickVia(1), pickVia(2)} {
			d := cl.Dataset(viaI, dsId)
			if d == nil {
				continue
			}
			ctx, cancel := context.WithTimeout(context.Background(), 500*time.Millisecond)
			res, err := d.Search(ctx, []float32{0, 0}, 64)
			cancel()
			if err == nil && orphan >= 0 {
				return pbt.Failf("C03:partial-search-succeeds", "%s: a search through member %d succeeds (%d items) although every replica of partition %d %v is down; history: %s", where, viaI, len(res), orphan, ds.VerifPartitionNodeIds(orphan), c.String())
			}
			if err == nil {
				o.Label("degraded-search-succeeded")
				seen := map[uuid.UUID]bool{}
				for _, it := range res {
					k := -1
					for j := 0; j < dKeys; j++ {
						if dKey(j) == it.Id {
							k = j
						}
					}
					if k < 0 || seen[it.Id] || (!m.tainted[k] && !m.st[k].present && insertOnly) {
						return pbt.Failf("C03:search-returns-dead-item", "%s: a search through member %d with a member down returns %s (unknown, twice, or never written); history: %s", where, viaI, gen.IDHex(it.Id), c.String())
					}
					seen[it.Id] = true
				}
			} else {
				o.Label("degraded-search-failed-loudly")
			}
			ctx, cancel = context.WithTimeout(context.Background(), 500*time.Millisecond)
			n, err := d.Len(ctx)
			cancel()
			if err == nil && orphan >= 0 {
				return pbt.Failf("C03:partial-size-succeeds", "%s: Len through member %d succeeds (%d) although every replica of partition %d %v is down; history: %s", where, viaI, n, orphan, ds.VerifPartitionNodeIds(orphan), c.String())
			}
		}
		return nil
	}
	judge := func(where string) *pbt.Failure {
		if !allUp() {
			return degraded(where)
		}
		if !settle(6000) {
			o.Label("read-skipped-not-settled")
			var d []string
			for i := 0; i < c.Members; i++ {
				if !member(i) {
					continue
				}
				ds := cl.Dataset(i, dsId)
				if ds == nil {
					d = append(d, fmt.Sprintf("member %d: no dataset", i))
					continue
				}
				for p := 0; p < c.P; p++ {
					if g := ds.VerifPartitionRaft(p); g != nil {
						st := g.VerifStatus()
						a, onLoop := g.VerifLastApplied()
						d = append(d, fmt.Sprintf("member %d partition %d %v: %s term %d commit %d applied %d/%v lead %x", i, p, ds.VerifPartitionNodeIds(p), st.RaftState, st.Term, st.Commit, a, onLoop, st.Lead))
					} else {
						d = append(d, fmt.Sprintf("member %d partition %d %v: not loaded", i, p, ds.VerifPartitionNodeIds(p)))
					}
				}
			}
			if dbg := os.Getenv("VERIF_DEBUG_FILE"); dbg != "" {
				if f, err := os.OpenFile(dbg, os.O_APPEND|os.O_CREATE|os.O_WRONLY, 0644); err == nil {
					fmt.Fprintf(f, "NOT SETTLED at %s: %s || %s\n\n", where, strings.Join(d, "; "), c.String())
					f.Close()
				}
			}
			return nil
		}
		anyTainted := false
		for k := 0; k < dKeys; k++ {
			if m.tainted[k] {
				anyTainted = true
			}
		}
		for i := 0; i < c.Members; i++ {
			if !member(i) {
				continue
			}
			ds := cl.Dataset(i, dsId)
			if ds == nil {
				return nil
			}
			for k := 0; k < dKeys; k++ {
				if m.tainted[k] {
					continue
				}
				p := ds.VerifPartitionOf(dKey(k))
				if !hosts(i, ds, p) {
					continue
				}
				v, err := ds.VerifPartitionIndex(p).Get(dKey(k))
				switch {
				case m.st[k].present && err != nil:
					key := "C03:acknowledged-write-missing"
					if restartedAll {
						key = "C03:acknowledged-write-missing-after-restart"
					}
					return pbt.Failf(key, "%s: key %d (acknowledged version %d) is not in partition %d on member %d: %v; history: %s", where, k, m.st[k].ver, p, i, err, c.String())
				case m.st[k].present && (len(v) != 2 || int(v[1]) != m.st[k].ver || int(v[0]) != k+1):
					return pbt.Failf("C03:acknowledged-write-differs", "%s: key %d holds %v on member %d, the last acknowledged write stored %v; history: %s", where, k, v, i, vec(k, m.st[k].ver), c.String())
				case !m.st[k].present && err == nil:
					return pbt.Failf("C03:removed-item-present", "%s: key %d holds %v on member %d although its removal was acknowledged (or it was never written); history: %s", where, k, v, i, c.String())
				}
			}
		}
		if !anyTainted {
			want := map[uuid.UUID]int{}
			for k := 0; k < dKeys; k++ {
				if m.st[k].present {
					want[dKey(k)] = k
				}
			}
			for i := 0; i < c.Members; i++ {
				if !member(i) {
					continue
				}
				ds := cl.Dataset(i, dsId)
				ctx, cancel := context.WithTimeout(context.Background(), 2*time.Second)
				n, err := ds.Len(ctx)
				cancel()
				if err != nil {
					o.Label("len-failed-with-all-members-up")
				} else if int(n) != len(want) {
					return pbt.Failf("C03:len-differs", "%s: member %d reports %d items, %d writes are live; history: %s", where, i, n, len(want), c.String())
				}
				ctx, cancel = context.WithTimeout(context.Background(), 2*time.Second)
				res, err := ds.Search(ctx, []float32{0, 0}, 64)
				cancel()
				if err != nil {
					o.Labelf("search-failed-with-all-members-up: %.60s", err.Error())
					continue
				}
				got := map[uuid.UUID]bool{}
				for _, it := range res {
					if _, ok := want[it.Id]; !ok {
						return pbt.Failf("C03:search-returns-dead-item", "%s: a search through member %d returns %s, which is not live; history: %s", where, i, gen.IDHex(it.Id), c.String())
					}
					if got[it.Id] {
						return pbt.Failf("C03:search-returns-item-twice", "%s: a search through member %d returns %s twice; history: %s", where, i, gen.IDHex(it.Id), c.String())
					}
					got[it.Id] = true
				}
				if len(want) > 0 && len(got) == 0 {
					return pbt.Failf("C03:search-empty-on-non-empty-dataset", "%s: a search (k=64) through member %d returns nothing although %d items are live; history: %s", where, i, len(want), c.String())
				}
				// (completeness is what C07 states for insert-only collections; after removals and updates a search may miss a live item)
				if insertOnly && len(got) != len(want) {
					var missing []int
					for id, k := range want {
						if !got[id] {
							missing = append(missing, k)
						}
					}
					sort.Ints(missing)
					return pbt.Failf("C03:search-misses-live-item", "%s: a search (k=64) through member %d returns %d of the %d live items, keys %v are missing; history: %s", where, i, len(got), len(want), missing, c.String())
				}
			}
			o.Label("contents-judged-through-every-member")
		}
		judgedReads++
		if restartedAll {
			afterRestartAll++
			o.Label("judged-after-restart-of-every-member")
		}
		return nil
	}
	verdict := func(k int, kind int, err error, ver int, where string) *pbt.Failure {
		exists := err != nil && strings.Contains(err.Error(), "Item already exists")
		notFound := err != nil && strings.Contains(err.Error(), "Item not found")
		switch {
		case err == nil:
			if !m.tainted[k] {
				if kind == DInsert && m.st[k].present {
					return pbt.Failf("C03:insert-of-live-item-acknowledged", "%s: insert of key %d is acknowledged although version %d is live; history: %s", where, k, m.st[k].ver, c.String())
				}
				if kind != DInsert && !m.st[k].present {
					return pbt.Failf("C03:write-to-absent-item-acknowledged", "%s: %s of key %d is acknowledged although the key is absent; history: %s", where, dNames[kind], k, c.String())
				}
			}
			m.st[k] = dState{present: kind != DRemove, ver: ver}
			acked++
		case exists && kind == DInsert:
			if !m.tainted[k] && !m.st[k].present {
				return pbt.Failf("C03:insert-refused-as-existing", "%s: insert of key %d is refused with %q although the key is absent; history: %s", where, k, err, c.String())
			}
		case notFound && kind != DInsert:
			if !m.tainted[k] && m.st[k].present {
				return pbt.Failf("C03:acknowledged-write-missing", "%s: %s of key %d is refused with %q although version %d was acknowledged; history: %s", where, dNames[kind], k, err, m.st[k].ver, c.String())
			}
		default:
			m.tainted[k] = true
			o.Labelf("write-without-verdict: %.60s", err.Error())
		}
		return nil
	}
	var steps []DStep
	for _, s := range c.Steps {
		if s.K != DLag {
			steps = append(steps, s)
			continue
		}
		steps = append(steps, DStep{K: DKill, A: s.A})
		for j, k := range s.Keys {
			kind := DInsert
			if j%3 == 2 {
				kind = DRemove // (of a key that may be live: the lagging member must lose it as well)
			}
			steps = append(steps, DStep{K: kind, Key: k, Via: s.Via})
		}
		for i := 0; i < c.Members; i++ {
			steps = append(steps, DStep{K: DSnapshot, A: i})
		}
		steps = append(steps, DStep{K: DStart})
	}
	for si, s := range steps {
		where := fmt.Sprintf("step %d %s", si, dNames[s.K])
		ver := si + 1
		cl.Wire()
		if s.K == DUpdate || s.K == DRemove || s.K == DBatchRemove || (s.K == DKillDuring && m.st[s.Key].present) {
			insertOnly = false
		}
		switch s.K {
		case DInsert, DUpdate, DRemove:
			via := pickVia(s.Via)
			ds := cl.Dataset(via, dsId)
			if ds == nil {
				continue
			}
			err := cl.WhileTicking(6000, func() error {
				ctx, cancel := context.WithTimeout(context.Background(), 250*time.Millisecond)
				defer cancel()
				switch s.K {
				case DInsert:
					return ds.Insert(ctx, dKey(s.Key), vec(s.Key, ver), nil)
				case DUpdate:
					return ds.Update(ctx, dKey(s.Key), vec(s.Key, ver), nil)
				}
				return ds.Remove(ctx, dKey(s.Key))
			})
			if err == ctl.ErrStuck {
				o.Inconclusive("write-did-not-return")
				return nil
			}
			if f := verdict(s.Key, s.K, err, ver, where); f != nil {
				return f
			}
		case DBatchInsert, DBatchRemove:
			via := pickVia(s.Via)
			ds := cl.Dataset(via, dsId)
			if ds == nil {
				continue
			}
			var items []*pb.BatchItem
			for _, k := range s.Keys {
				it := &pb.BatchItem{Id: dKey(k).Bytes()}
				if s.K == DBatchInsert {
					it.Value = vec(k, ver)
				}
				items = append(items, it)
			}
			var errs map[uuid.UUID]error
			err := cl.WhileTicking(6000, func() error {
				ctx, cancel := context.WithTimeout(context.Background(), 250*time.Millisecond)
				defer cancel()
				var err error
				if s.K == DBatchInsert {
					errs, err = ds.BatchInsert(ctx, items)
				} else {
					errs, err = ds.BatchRemove(ctx, items)
				}
				return err
			})
			if err == ctl.ErrStuck {
				o.Inconclusive("write-did-not-return")
				return nil
			}
			kind := DInsert
			if s.K == DBatchRemove {
				kind = DRemove
			}
			for _, k := range s.Keys {
				e := err
				if e == nil {
					e = errs[dKey(k)]
				}
				if f := verdict(k, kind, e, ver, where); f != nil {
					return f
				}
			}
		case DConcurrent:
			// caller j owns the keys with key mod 3 == j and enters through member Via+j: per key the history stays sequential
			var mu sync.Mutex
			var wg sync.WaitGroup
			var fail *pbt.Failure
			callers := 0
			for j := 0; j < 3; j++ {
				var mine []int
				for _, k := range s.Keys {
					if k%3 == j {
						mine = append(mine, k)
					}
				}
				via := pickVia(s.Via + j)
				if len(mine) == 0 || via < 0 {
					continue
				}
				ds := cl.Dataset(via, dsId)
				if ds == nil {
					continue
				}
				callers++
				wg.Add(1)
				go func(j int, mine []int, ds *storage.Dataset) {
					defer wg.Done()
					for n, k := range mine {
						v := 1000*(si+1) + 10*j + n
						mu.Lock()
						present := m.st[k].present
						mu.Unlock()
						kind := DInsert
						if present {
							kind = DUpdate
							if n%2 == 1 {
								kind = DRemove
							}
						}
						ctx, cancel := context.WithTimeout(context.Background(), 250*time.Millisecond)
						var err error
						switch kind {
						case DInsert:
							err = ds.Insert(ctx, dKey(k), vec(k, v), nil)
						case DUpdate:
							err = ds.Update(ctx, dKey(k), vec(k, v), nil)
						default:
							err = ds.Remove(ctx, dKey(k))
						}
						cancel()
						mu.Lock()
						if kind != DInsert {
							insertOnly = false
						}
						if f := verdict(k, kind, err, v, fmt.Sprintf("%s caller %d", where, j)); f != nil && fail == nil {
							fail = f
						}
						mu.Unlock()
					}
				}(j, mine, ds)
			}
			finished := make(chan struct{})
			go func() { wg.Wait(); close(finished) }()
			returned := false
			for r := 0; r < 30000 && !returned; r++ {
				select {
				case <-finished:
					returned = true
				default:
					cl.Tick(1)
					time.Sleep(100 * time.Microsecond)
				}
			}
			if !returned {
				o.Inconclusive("write-did-not-return")
				return nil
			}
			if fail != nil {
				return fail
			}
			if callers >= 2 {
				o.Label("concurrent-callers-through-different-members")
			}
		case DKillDuring:
			a := s.A % c.Members
			live, members := 0, 0
			for i := 0; i < c.Members; i++ {
				if up(i) {
					live++
				}
				if member(i) {
					members++
				}
			}
			via := pickVia(s.Via)
			ds := cl.Dataset(via, dsId)
			if !up(a) || live < members || ds == nil {
				continue
			}
			// an insert if the key is absent by the acknowledged history, else an update
			insert := !m.st[s.Key].present
			kind := DUpdate
			if insert {
				kind = DInsert
			}
			errc := make(chan error, 1)
			go func() {
				ctx, cancel := context.WithTimeout(context.Background(), 250*time.Millisecond)
				defer cancel()
				if insert {
					errc <- ds.Insert(ctx, dKey(s.Key), vec(s.Key, ver), nil)
				} else {
					errc <- ds.Update(ctx, dKey(s.Key), vec(s.Key, ver), nil)
				}
			}()
			cl.Tick(s.N)
			if !cl.Kill(a) {
				o.Inconclusive("killed-node-did-not-stop")
				return nil
			}
			o.Label("member-killed-during-a-write")
			if ackedAtKill < 0 {
				ackedAtKill = acked
			}
			var werr error
			returned := false
			for r := 0; r < 8000 && !returned; r++ {
				select {
				case werr = <-errc:
					returned = true
				default:
					cl.Tick(1)
					time.Sleep(100 * time.Microsecond)
				}
			}
			if !returned {
				o.Inconclusive("write-did-not-return")
				return nil
			}
			if werr == nil {
				o.Label("write-acknowledged-although-a-member-died-during-it")
			}
			if f := verdict(s.Key, kind, werr, ver, where); f != nil {
				return f
			}
			if live <= 1 { // nobody left: the member comes back at once
				if err := cl.Start(a, a == 0); err != nil {
					return pbt.Failf("C03:restart-fails", "%s: member %d does not start over its store: %v; history: %s", where, a, err, c.String())
				}
				ackedAtKill = -1
				cl.ElectZero(1500)
				if f := judge(where); f != nil {
					return f
				}
			}
		case DKill:
			a := s.A % c.Members
			live, members := 0, 0
			for i := 0; i < c.Members; i++ {
				if up(i) {
					live++
				}
				if member(i) {
					members++
				}
			}
			if !up(a) || live <= 1 || live < members {
				continue // one member down at a time
			}
			if !cl.Kill(a) {
				o.Inconclusive("killed-node-did-not-stop")
				return nil
			}
			o.Label("member-killed")
			if ackedAtKill < 0 {
				ackedAtKill = acked
			}
			cl.Tick(15) // the survivors notice
		case DStart:
			started := false
			for i := 0; i < c.Members; i++ {
				if member(i) && !up(i) {
					if err := cl.Start(i, i == 0); err != nil {
						return pbt.Failf("C03:restart-fails", "%s: member %d does not start over its store: %v; history: %s", where, i, err, c.String())
					}
					started = true
				}
			}
			if started {
				catchups++
				o.Label("member-restarted-and-caught-up")
				if compactedBehind {
					o.Label("member-caught-up-across-a-compaction")
				}
				ackedAtKill, compactedBehind = -1, false
				cl.ElectZero(1500)
				if f := judge(where); f != nil {
					return f
				}
			}
		case DRestartAll:
			for i := 0; i < c.Members; i++ {
				if up(i) && !cl.Kill(i) {
					o.Inconclusive("killed-node-did-not-stop")
					return nil
				}
			}
			time.Sleep(200 * time.Microsecond)
			for i := 0; i < c.Members; i++ {
				if !member(i) {
					continue
				}
				if err := cl.Start(i, i == 0); err != nil {
					return pbt.Failf("C03:restart-fails", "%s: member %d does not start over its store: %v; history: %s", where, i, err, c.String())
				}
			}
			restartedAll = true
			ackedAtKill, compactedBehind = -1, false
			cl.ElectZero(1500)
			if f := judge(where); f != nil {
				return f
			}
		case DSnapshot:
			a := s.A % c.Members
			ds := cl.Dataset(a, dsId)
			if ds == nil {
				continue
			}
			for p := 0; p < c.P; p++ {
				if g := ds.VerifPartitionRaft(p); g != nil {
					if err, ran := g.VerifSnapshotNow(); ran && err == nil {
						o.Label("partition-log-compacted")
						if ackedAtKill >= 0 && acked > ackedAtKill {
							compactedBehind = true
						}
					}
				}
			}
		case DRead:
			if f := judge(where); f != nil {
				return f
			}
		case DJoinLate:
			late := c.Members - 1
			if !c.Late || member(late) || !allUp() || !up(0) {
				continue
			}
			if !cl.ElectZero(1500) {
				continue
			}
			if why := cl.JoinSettled(late); why != "" {
				o.Inconclusive(why)
				return nil
			}
			o.Label("member-joined-late")
			// the joiner's replicas (of partitions that were under-replicated) have caught up before anything else happens to it
			if f := judge(where); f != nil {
				return f
			}
			ds := cl.Dataset(late, dsId)
			for p := 0; ds != nil && p < c.P; p++ {
				if hosts(late, ds, p) {
					o.Label("late-member-became-a-replica")
					break
				}
			}
		case DTick:
			cl.Tick(s.N)
		}
		cl.Tick(1)
		if f := sim.TakeUnexpectedFatal(); f != "" {
			return pbt.Failf("C03:fatal-in-ready-loop", "%s: log.Fatal without an injected crash: %.500s; history: %s", where, f, c.String())
		}
		if st := cl.Stuck(); len(st) > 0 {
			o.Inconclusive("control-plane-stuck")
			return nil
		}
	}
	// the end of every history: everybody comes back and is judged
	for i := 0; i < c.Members; i++ {
		if member(i) && !up(i) {
			if err := cl.Start(i, i == 0); err != nil {
				return pbt.Failf("C03:restart-fails", "end of history: member %d does not start over its store: %v; history: %s", i, err, c.String())
			}
		}
	}
	cl.ElectZero(1500)
	if f := judge("end of history"); f != nil {
		return f
	}
	if f := sim.TakeUnexpectedFatal(); f != "" {
		return pbt.Failf("C03:fatal-in-ready-loop", "end of history: log.Fatal without an injected crash: %.500s; history: %s", f, c.String())
	}
	if acked >= 3 && judgedReads >= 1 && (afterRestartAll >= 1 || catchups >= 1) {
		o.NonTrivial()
	}
	o.Note(c.String())
	return nil
}

func TestAckedWritesOnCluster(t *testing.T) {
	pbt.Run(t, pbt.Prop[DCase]{
		ID: "C03", Name: "TestAckedWritesOnCluster",
		Rule:    "rapid-generated histories on 1-3 simulated nodes wired like server.go (package ctl: real zero groups, shared group, NodesManager, allocator, DatasetManager, partition raft groups loaded by the allocator): a dataset with 1-3 partitions and replication factor 1-3 is created through the DatasetManager API; single and batch writes over 10 keys enter through the Dataset API of any live member, also from three callers at once that own disjoint keys, (proxied through in-memory DataManager clients); members are killed between two writes or a generated number of ticks into a write, and started again over their stores, one at a time (the others keep writing) or all at once; partition groups snapshot and compact; oracle: a reference map of the writes that ended with a verdict (acknowledged, or refused as existing/not found - a refusal must agree with the map); whenever all members are up and every replica has applied its leader's commit index, every hosting member's index holds exactly the map's value for every key without an abandoned write, with a member down a search or Len through a live member fails unless every partition has a live replica; Len through every member is the number of live keys, and a k=64 search through every member returns live keys only, none twice, at least one if any is live, and all of them while the history is insert-only; non-trivial = >=3 acknowledged writes, >=1 judged read and a member restart; distinct = distinct case JSON",
		Gen:     genDCase,
		Check:   checkDCluster,
		Journal: true,
	})
}
