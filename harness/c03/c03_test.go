// C03 — acknowledged writes survive a crash at any instant and restart.
package c03

import (
	"context"
	"fmt"
	"os"
	"strings"
	"sync"
	"testing"
	"time"

	"github.com/marekgalovic/anndb/index"
	amath "github.com/marekgalovic/anndb/math"
	pb "github.com/marekgalovic/anndb/protobuf"
	uuid "github.com/satori/go.uuid"
	"pgregory.net/rapid"
	"verifharness/catalog"
	"verifharness/gen"
	"verifharness/hutil"
	"verifharness/pbt"
	"verifharness/prod"
	"verifharness/sim"
)

func TestMain(m *testing.M) { pbt.Main(m) }

const (
	WInsert = iota
	WUpdate
	WRemove
	WBatchInsert
	WBatchRemove
	WSnapshot // take a real snapshot (trySnapshot through the loop hook) on every live replica
	WClear    // batch remove of every id: the partitions become empty (their snapshot is then the snapshot of an empty index)
)

var wNames = []string{"insert", "update", "remove", "batchInsert", "batchRemove", "snapshot", "clear"}

type WOp struct {
	K    int   `json:"k"`
	Id   int   `json:"id"`
	Ids  []int `json:"ids,omitempty"`
	Ver  int   `json:"ver"`
	Meta int   `json:"meta,omitempty"`
	Node int   `json:"node,omitempty"` // entry node (mod live nodes)
}

type Round struct {
	Ops []WOp `json:"ops"`
	// crash plan of this round: the K-th next durable write of partition P's log store on node N,
	// armed before op number At of the round (mod len); After = the write is performed first
	At     int  `json:"at"`
	N      int  `json:"n"`
	P      int  `json:"p"`
	K      int  `json:"k"`
	After  bool `json:"after"`
	Settle int  `json:"settle_us"`
	// Catchup: (3 nodes) a second crash plan on the restarted node while it catches up (K2-th durable write, e.g. the
	// install of a snapshot received from the leader)
	Emptied bool `json:"emptied,omitempty"` // the round is the scenario "falls behind while the partition is emptied and snapshotted"
	Catchup bool `json:"catchup"`
	K2      int  `json:"k2"`
	After2  bool `json:"after2"`
}

type Case struct {
	Nodes      int     `json:"nodes"`      // 1 or 3 (every partition on every node)
	Partitions int     `json:"partitions"` // 1-2
	Rounds     []Round `json:"rounds"`
}

func (c Case) String() string {
	var b strings.Builder
	fmt.Fprintf(&b, "nodes=%d partitions=%d;", c.Nodes, c.Partitions)
	for i, r := range c.Rounds {
		fmt.Fprintf(&b, " round%d{crash node%d p%d write#%d after=%v armed-at-op%d:", i, r.N, r.P, r.K, r.After, r.At)
		for _, o := range r.Ops {
			fmt.Fprintf(&b, " %s(#%d%v v%d)", wNames[o.K], o.Id, o.Ids, o.Ver)
		}
		b.WriteString("}")
	}
	return b.String()
}

func genCase(t *rapid.T) Case {
	c := Case{Nodes: rapid.SampledFrom([]int{1, 1, 3}).Draw(t, "nodes"), Partitions: rapid.IntRange(1, 2).Draw(t, "partitions")}
	ver := 0
	op := rapid.Custom(func(t *rapid.T) WOp {
		k := rapid.SampledFrom([]int{WInsert, WInsert, WInsert, WUpdate, WUpdate, WRemove, WBatchInsert, WBatchRemove, WSnapshot, WSnapshot, WClear}).Draw(t, "k")
		o := WOp{K: k, Id: rapid.IntRange(0, 7).Draw(t, "id"), Meta: rapid.IntRange(0, 4).Draw(t, "meta"), Node: rapid.IntRange(0, 2).Draw(t, "node")}
		if k == WBatchInsert || k == WBatchRemove {
			o.Ids = rapid.SliceOfNDistinct(rapid.IntRange(0, 7), 1, 4, rapid.ID[int]).Draw(t, "ids")
		}
		if k == WClear {
			o.K, o.Ids = WBatchRemove, []int{0, 1, 2, 3, 4, 5, 6, 7}
		}
		return o
	})
	nr := rapid.IntRange(1, 3).Draw(t, "rounds")
	for i := 0; i < nr; i++ {
		r := Round{Ops: rapid.SliceOfN(op, 2, pbt.Pick(12, 24)).Draw(t, "ops")}
		// now and then a burst of 18 single writes: a node that is down meanwhile falls more than the 16 entries behind
		// that the log store keeps in front of a snapshot, so it can only catch up through the leader's snapshot
		if c.Nodes == 3 && rapid.IntRange(0, 2).Draw(t, "burst") == 0 {
			at := rapid.IntRange(0, len(r.Ops)).Draw(t, "burstat")
			var burst []WOp
			for j := 0; j < 18; j++ {
				k := WInsert
				if j%3 != 0 {
					k = WUpdate
				}
				burst = append(burst, WOp{K: k, Id: (j / 3) % 8, Meta: j % 5, Node: j % 3})
			}
			r.Ops = append(append(append([]WOp(nil), r.Ops[:at]...), burst...), r.Ops[at:]...)
		}
		// now and then the whole round is the scenario "a replica that holds items goes down, falls far behind, and the
		// partition is emptied and snapshotted meanwhile": it can only catch up through the snapshot of an empty index
		// one case in twenty starts with an item whose metadata alone is 1.2 MB, then a snapshot: from then on every
		// snapshot of that partition is larger than a mebibyte
		if i == 0 && rapid.IntRange(0, 19).Draw(t, "fat") == 0 {
			fatId := rapid.IntRange(0, 7).Draw(t, "fatid")
			r.Ops = append([]WOp{{K: WInsert, Id: fatId, Meta: gen.Fat, Node: 0}, {K: WSnapshot}}, r.Ops...)
		}
		emptied := c.Nodes == 3 && rapid.IntRange(0, 3).Draw(t, "emptied") == 0
		armAt := -1
		if emptied {
			var ops []WOp
			for _, id := range rapid.SliceOfNDistinct(rapid.IntRange(0, 7), 3, 6, rapid.ID[int]).Draw(t, "held") {
				ops = append(ops, WOp{K: WInsert, Id: id, Meta: id % 5, Node: id % 3})
			}
			armAt = len(ops)
			for j := 0; j < 20*c.Partitions; j++ {
				ops = append(ops, WOp{K: WUpdate, Id: j % 8, Meta: j % 5, Node: j % 3})
			}
			ops = append(ops, WOp{K: WBatchRemove, Ids: []int{0, 1, 2, 3, 4, 5, 6, 7}}, WOp{K: WSnapshot})
			ops = append(ops, rapid.SliceOfN(op, 0, 3).Draw(t, "tail")...)
			r.Ops = ops
		}
		for j := range r.Ops {
			ver++
			r.Ops[j].Ver = ver
		}
		r.At = rapid.IntRange(0, len(r.Ops)-1).Draw(t, "at")
		if emptied {
			r.At, r.Emptied = armAt, true
		}
		r.N = rapid.IntRange(0, c.Nodes-1).Draw(t, "n")
		r.P = rapid.IntRange(0, c.Partitions-1).Draw(t, "p")
		r.K = rapid.IntRange(1, 6).Draw(t, "k")
		if emptied {
			r.K = rapid.IntRange(1, 2).Draw(t, "k1")
		}
		r.After = rapid.Bool().Draw(t, "after")
		r.Settle = rapid.SampledFrom([]int{0, 0, 100, 500, 2000}).Draw(t, "settle")
		if c.Nodes == 3 {
			r.Catchup = rapid.Bool().Draw(t, "catchup")
			r.K2 = rapid.IntRange(1, 4).Draw(t, "k2")
			r.After2 = rapid.Bool().Draw(t, "after2")
		}
		c.Rounds = append(c.Rounds, r)
	}
	return c
}

func vecOf(id, ver int) []float32 { return []float32{float32(id + 1), float32(ver)} }

type state struct {
	present bool
	ver     int
	meta    map[string]string
}

func (s state) String() string {
	if !s.present {
		return "absent"
	}
	if len(s.meta) == 0 {
		return fmt.Sprintf("v%d{}", s.ver) // nil and empty metadata are the same state
	}
	return fmt.Sprintf("v%d%s", s.ver, gen.MetaString(s.meta))
}

func sameState(a, b state) bool {
	return a.present == b.present && (!a.present || (a.ver == b.ver && gen.MetaEqual(a.meta, b.meta)))
}

// apply computes the model state of an id after op (given the state before).
func apply(before state, o WOp) state {
	switch o.K {
	case WInsert, WBatchInsert:
		if before.present {
			return before
		}
		return state{true, o.Ver, gen.Meta(o.Meta)}
	case WUpdate:
		if !before.present {
			return before
		}
		m := gen.Meta(o.Meta)
		merged := map[string]string{}
		for k, v := range m {
			merged[k] = v
		}
		for k, v := range before.meta {
			if _, ok := merged[k]; !ok {
				merged[k] = v
			}
		}
		return state{true, o.Ver, merged}
	case WRemove, WBatchRemove:
		return state{}
	}
	return before
}

func opIds(o WOp) []int {
	if o.K == WBatchInsert || o.K == WBatchRemove {
		return o.Ids
	}
	if o.K == WSnapshot {
		return nil
	}
	return []int{o.Id}
}

var trapOnce sync.Once

const slot = 0

func check(c Case, o *pbt.Obs) *pbt.Failure {
	trapOnce.Do(sim.InstallFatalTrap)
	sim.TakeUnexpectedFatal()
	open := hutil.MemDB
	for _, r := range c.Rounds {
		for _, op := range r.Ops {
			if op.Meta == gen.Fat {
				open = hutil.MemDBBig // a 1.2 MB entry does not fit a write of the small-table stores used otherwise
			}
		}
	}
	cl := prod.NewOn(c.Nodes, open)
	defer cl.Close()
	var all []uint64
	for i := 0; i < c.Nodes; i++ {
		all = append(all, prod.NodeID(i))
	}
	nodesPerPart := make([][]uint64, c.Partitions)
	for p := range nodesPerPart {
		nodesPerPart[p] = all
	}
	cl.Catalog = []catalog.Op{{K: catalog.OpCreate, Slot: slot, Dim: 2, Space: 0, Nodes: nodesPerPart}}
	var mu sync.Mutex // guards crashFlag and the ack log
	crashFlag := false
	cl.OnCrash = func(n *prod.Node) {
		mu.Lock()
		crashFlag = true
		mu.Unlock()
	}
	for i := 0; i < c.Nodes; i++ {
		cl.Start(i)
	}
	if !cl.Elect(slot, 400) {
		o.Inconclusive("no-leader-after-start")
		return nil
	}
	// model: acked state per id, plus the candidate states of in-flight ops
	acked := map[int]state{}
	submitted := map[int][]state{} // every state an id could legitimately be in (for "nothing that was never submitted")
	for id := 0; id < 8; id++ {
		submitted[id] = []state{{}}
	}
	boundaryKinds := map[string]bool{}
	nontrivial := false
	// id -> possible states from ops that were not acknowledged: raft may still commit such an entry much later (it sits
	// in some replica's log until a later leader commits or overwrites it), so the candidates survive rounds until no
	// replica has an uncommitted tail any more
	inflight := map[int][]state{}
	for ri, r := range c.Rounds {
		mu.Lock()
		crashFlag = false
		mu.Unlock()
		ackedBefore := 0
		crashNode := r.N % c.Nodes
		var fired *sim.MonWAL
		for oi, op := range r.Ops {
			if oi == r.At%len(r.Ops) && cl.Up(crashNode) {
				if ds := cl.Dataset(crashNode, slot); ds != nil {
					if m := cl.Mon(crashNode, ds.VerifPartitionId(r.P%c.Partitions)); m != nil {
						m.Arm(r.K, r.After)
						fired = m
					}
				}
			}
			mu.Lock()
			dead := crashFlag
			mu.Unlock()
			if dead && c.Nodes == 1 {
				break
			}
			// entry node: a live node
			entry := -1
			for k := 0; k < c.Nodes; k++ {
				cand := (op.Node + k) % c.Nodes
				if cl.Up(cand) {
					entry = cand
					break
				}
			}
			if entry < 0 {
				break
			}
			ds := cl.Dataset(entry, slot)
			if ds == nil {
				break
			}
			if op.Meta == gen.Fat {
				o.Label("item-with-1.2MB-metadata")
			}
			if op.K == WSnapshot {
				for i := 0; i < c.Nodes; i++ {
					for _, g := range cl.Groups(i, slot) {
						g.VerifSnapshotNow()
					}
				}
				o.Label("snapshot-step")
				continue
			}
			// what each touched id may become if this op takes effect (from any of its current candidates)
			ids := opIds(op)
			cands := map[int][]state{}
			for _, id := range ids {
				base := []state{acked[id]}
				base = append(base, inflight[id]...)
				for _, b := range base {
					cands[id] = append(cands[id], apply(b, op))
				}
			}
			ctx, cancel := context.WithTimeout(context.Background(), 150*time.Millisecond)
			var err error
			var berr map[uuid.UUID]error
			switch op.K {
			case WInsert:
				err = ds.Insert(ctx, gen.ID(op.Id+2), amath.Vector(vecOf(op.Id, op.Ver)), index.Metadata(gen.Meta(op.Meta)))
			case WUpdate:
				err = ds.Update(ctx, gen.ID(op.Id+2), amath.Vector(vecOf(op.Id, op.Ver)), index.Metadata(gen.Meta(op.Meta)))
			case WRemove:
				err = ds.Remove(ctx, gen.ID(op.Id+2))
			case WBatchInsert:
				var items []*pb.BatchItem
				for _, id := range ids {
					items = append(items, &pb.BatchItem{Id: gen.ID(id + 2).Bytes(), Value: vecOf(id, op.Ver), Metadata: gen.Meta(op.Meta)})
				}
				berr, err = ds.BatchInsert(ctx, items)
			case WBatchRemove:
				var items []*pb.BatchItem
				for _, id := range ids {
					items = append(items, &pb.BatchItem{Id: gen.ID(id + 2).Bytes()})
				}
				berr, err = ds.BatchRemove(ctx, items)
			}
			cancel()
			mu.Lock()
			dead = crashFlag
			mu.Unlock()
			for _, id := range ids {
				submitted[id] = append(submitted[id], cands[id]...)
			}
			definite := err == nil || err == index.ItemAlreadyExistsError || err == index.ItemNotFoundError
			if definite && !dead {
				// acknowledged (with its outcome) strictly before the crash flag
				for _, id := range ids {
					itemErr := err
					if berr != nil {
						itemErr = berr[gen.ID(id+2)]
					}
					// the acknowledged outcome must be the model's outcome from the acked state, unless in-flight ops blur it
					if len(inflight[id]) == 0 {
						want := apply(acked[id], op)
						exp := error(nil)
						if (op.K == WInsert || op.K == WBatchInsert) && acked[id].present {
							exp = index.ItemAlreadyExistsError
						}
						if (op.K == WUpdate || op.K == WRemove || op.K == WBatchRemove) && !acked[id].present {
							exp = index.ItemNotFoundError
						}
						if fmt.Sprint(itemErr) != fmt.Sprint(exp) {
							return pbt.Failf("C03:wrong-outcome", "round %d op %d %s(#%d v%d) acknowledged with %v, the acknowledged history says %v", ri, oi, wNames[op.K], id, op.Ver, itemErr, exp)
						}
						acked[id] = want
					} else {
						// outcome depends on which in-flight ops took effect: keep every candidate
						inflight[id] = append(inflight[id], cands[id]...)
					}
				}
				ackedBefore++
			} else {
				// timed out / failed / crashed meanwhile: may or may not take effect
				for _, id := range ids {
					inflight[id] = append(inflight[id], cands[id]...)
				}
			}
			if r.Settle > 0 && oi == r.At%len(r.Ops) {
				time.Sleep(time.Duration(r.Settle) * time.Microsecond)
			}
		}
		// crash whatever is still alive on the chosen node if the plan did not fire (crash between writes), then restart
		mu.Lock()
		firedCrash := crashFlag
		mu.Unlock()
		if fired != nil {
			fired.Disarm()
		}
		if !firedCrash {
			cl.Kill(crashNode)
			o.Label("crash-between-writes")
		} else if fired != nil {
			kinds := fired.Kinds
			if len(kinds) > 0 {
				k := kinds[len(kinds)-1]
				ba := "before"
				if r.After {
					ba = "after"
				}
				boundaryKinds[k+"/"+ba] = true
				o.Label("crash-at-" + k + "/" + ba)
			}
			if ackedBefore > 0 {
				nontrivial = true
			}
		}
		time.Sleep(300 * time.Microsecond)
		for _, v := range cl.WalViolations() {
			return pbt.Failf("C03:log-store-invariant", "round %d: %s", ri, v)
		}
		for _, v := range cl.SendViolations() {
			return pbt.Failf("C03:message-before-durable", "round %d: %s", ri, v)
		}
		if f := sim.TakeUnexpectedFatal(); f != "" {
			return pbt.Failf("C03:fatal-without-crash", "round %d: log.Fatal in a ready loop although no crash was injected there: %.600s", ri, f)
		}
		cl.Start(crashNode)
		var catchupMon *sim.MonWAL
		if r.Catchup && c.Nodes == 3 {
			if ds := cl.Dataset(crashNode, slot); ds != nil {
				if catchupMon = cl.Mon(crashNode, ds.VerifPartitionId(r.P%c.Partitions)); catchupMon != nil {
					catchupMon.Arm(r.K2, r.After2)
				}
			}
		}
		if f := sim.TakeUnexpectedFatal(); f != "" {
			return pbt.Failf("C03:restart-fails", "round %d: the restarted node hit log.Fatal while loading its partitions: %.600s", ri, f)
		}
		if !cl.Elect(slot, 600) {
			o.Inconclusive("no-leader-after-restart")
			return nil
		}
		// let the restarted replica catch up, then read its contents
		deadline := time.Now().Add(3 * time.Second)
		var lastDiff string
		for {
			lastDiff = ""
			ds := cl.Dataset(crashNode, slot)
			if ds == nil {
				lastDiff = "dataset missing after restart"
			} else {
				for id := 0; id < 8 && lastDiff == ""; id++ {
					got := readState(ds, id, c.Partitions)
					ok := sameState(got, acked[id])
					for _, s := range inflight[id] {
						if sameState(got, s) {
							ok = true
						}
					}
					if !ok {
						known := false
						for _, s := range submitted[id] {
							if sameState(got, s) {
								known = true
							}
						}
						if !known {
							lastDiff = fmt.Sprintf("id #%d recovered as %s which no submitted write could have produced", id, got)
						} else {
							lastDiff = fmt.Sprintf("id #%d recovered as %s; acknowledged state is %s, in-flight alternatives %v", id, got, acked[id], inflight[id])
						}
					}
				}
			}
			if catchupMon != nil && !cl.Up(crashNode) {
				// the second plan fired while the node was catching up: restart it once more, unarmed
				if ks := catchupMon.Kinds; len(ks) > 0 {
					ba := "before"
					if r.After2 {
						ba = "after"
					}
					o.Label("catchup-crash-at-" + ks[len(ks)-1] + "/" + ba)
				}
				catchupMon = nil
				time.Sleep(300 * time.Microsecond)
				cl.Start(crashNode)
				cl.Elect(slot, 600)
				deadline = time.Now().Add(3 * time.Second)
				continue
			}
			if lastDiff == "" || time.Now().After(deadline) {
				break
			}
			for i := 0; i < c.Nodes; i++ {
				for _, g := range cl.Groups(i, slot) {
					g.VerifTick(1)
				}
			}
			time.Sleep(200 * time.Microsecond)
		}
		if catchupMon != nil {
			catchupMon.Disarm()
		}
		if ds := cl.Dataset(crashNode, slot); ds != nil {
			for p := 0; p < c.Partitions; p++ {
				if m := cl.Mon(crashNode, ds.VerifPartitionId(p)); m != nil {
					for _, k := range m.KindsCopy() {
						if k == sim.WriteSnapshot {
							o.Label("restarted-replica-installed-a-received-snapshot")
						}
					}
					if m.EmptySnapshotInstalls > 0 {
						o.Label("restarted-replica-installed-the-snapshot-of-an-empty-partition")
						if r.Emptied {
							o.Label("restarted-replica-that-held-items-installed-the-snapshot-of-an-empty-partition")
						}
					}
				}
			}
		}
		for _, v := range cl.WalViolations() {
			return pbt.Failf("C03:log-store-invariant", "round %d after restart: %s", ri, v)
		}
		for _, v := range cl.SendViolations() {
			return pbt.Failf("C03:message-before-durable", "round %d after restart: %s", ri, v)
		}
		if f := sim.TakeUnexpectedFatal(); f != "" {
			return pbt.Failf("C03:fatal-after-restart", "round %d: log.Fatal after restart: %.600s", ri, f)
		}
		if lastDiff != "" {
			var views []string
			for i := 0; i < c.Nodes; i++ {
				ds := cl.Dataset(i, slot)
				if ds == nil {
					views = append(views, fmt.Sprintf("node%d:down", i))
					continue
				}
				part := fmt.Sprintf("node%d:", i)
				for id := 0; id < 8; id++ {
					part += readState(ds, id, c.Partitions).String() + ";"
				}
				for _, g := range cl.Groups(i, slot) {
					st := g.VerifStatus()
					part += fmt.Sprintf(" raft{term=%d lead=%x state=%v commit=%d applied=%d}", st.Term, st.Lead, st.RaftState, st.Commit, st.Applied)
				}
				views = append(views, part)
			}
			return pbt.Failf("C03:acknowledged-write-lost-or-invented", "round %d (crash node %d, partition %d, write #%d, after=%v; catch-up plan %v #%d after=%v): %s ;; replicas: %s", ri, crashNode, r.P, r.K, r.After, r.Catchup, r.K2, r.After2, lastDiff, strings.Join(views, " | "))
		}
		// the recovered state becomes the acknowledged baseline of the next round: wait until every replica has
		// applied everything that is committed and all replicas hold the same contents (in-flight ops may still land)
		stable, prevSig := 0, ""
		for round := 0; round < 3000 && stable < 4; round++ {
			sig := ""
			for i := 0; i < c.Nodes; i++ {
				ds := cl.Dataset(i, slot)
				if ds == nil {
					continue
				}
				part := ""
				for id := 0; id < 8; id++ {
					part += readState(ds, id, c.Partitions).String() + ";"
				}
				for _, g := range cl.Groups(i, slot) {
					st := g.VerifStatus()
					if st.Commit != st.Applied {
						part += fmt.Sprintf("applying(%d/%d)#%d;", st.Applied, st.Commit, round)
					}
				}
				if sig == "" {
					sig = part
				} else if sig != part {
					sig = fmt.Sprintf("replicas-differ#%d", round)
				}
			}
			if sig == prevSig {
				stable++
			} else {
				stable, prevSig = 0, sig
			}
			for i := 0; i < c.Nodes; i++ {
				for _, g := range cl.Groups(i, slot) {
					g.VerifTick(1)
				}
			}
			time.Sleep(150 * time.Microsecond)
		}
		if stable < 4 {
			if os.Getenv("VERIF_DEBUG") != "" {
				for i := 0; i < c.Nodes; i++ {
					ds := cl.Dataset(i, slot)
					if ds == nil {
						fmt.Printf("DEBUG node %d: no dataset\n", i)
						continue
					}
					part := ""
					for id := 0; id < 8; id++ {
						part += readState(ds, id, c.Partitions).String() + ";"
					}
					for _, g := range cl.Groups(i, slot) {
						st := g.VerifStatus()
						part += fmt.Sprintf(" raft{term=%d lead=%x state=%v commit=%d applied=%d}", st.Term, st.Lead, st.RaftState, st.Commit, st.Applied)
					}
					fmt.Printf("DEBUG node %d: %s\n", i, part)
				}
			}
			o.Inconclusive("replicas-did-not-quiesce-after-restart")
			return nil
		}
		if ds := cl.Dataset(crashNode, slot); ds != nil {
			for id := 0; id < 8; id++ {
				acked[id] = readState(ds, id, c.Partitions)
			}
		}
		// (in-flight candidates are never dropped: an unacknowledged entry can sit in a replica's log and be committed by a
		// later leader, rounds later; ids touched by such ops are judged against all their candidates from then on)
		for id, ss := range inflight {
			if len(ss) > 0 {
				inflight[id] = append(ss, acked[id])
			}
		}
	}
	if nontrivial {
		o.NonTrivial()
	}
	o.Labelf("nodes=%d", c.Nodes)
	o.Note(c.String())
	return nil
}

// readState reads an id from the owner partition's index on the given node's dataset.
func readState(ds interface {
	VerifPartitionOf(uuid.UUID) int
	VerifPartitionIndex(int) *index.Hnsw
}, id int, parts int) state {
	uid := gen.ID(id + 2)
	idx := ds.VerifPartitionIndex(ds.VerifPartitionOf(uid))
	v, err := idx.Get(uid)
	if err != nil {
		return state{}
	}
	meta, _, _ := idx.VerifVertexMeta(uid)
	return state{true, int(v[1]), map[string]string(meta)}
}

func TestAckedWritesSurviveCrash(t *testing.T) {
	pbt.Run(t, pbt.Prop[Case]{
		ID: "C03", Name: "TestAckedWritesSurviveCrash",
		Rule: "rapid-generated write histories (insert/update/remove/batch insert/batch remove over 8 ids, batch removes of all 8 ids that empty the partitions, real snapshots via the loop hook; in a third of the 3-node rounds a burst of 18 single writes so that a replica that is down falls behind the log kept in front of a snapshot) through storage.Dataset on 1 node or on 3 nodes hosting every partition (product path: partitions created by the real DatasetManager/Allocator, raft groups loaded by watch->loadRaft, also on restart), in 1-3 rounds; each round arms a crash at the K-th next durable write (K in 1..6, before or after performing it) of one partition's log store on one node, armed before a generated op, with a generated settle pause; if the plan does not fire the node is killed between writes; then the node restarts over the same store (catalogue replayed, raft reloaded) and, in the 3-node case, catches up; oracle: acknowledgements are recorded under the same mutex as the crash flag; per id the recovered state must equal the state after the last acknowledged op or one produced by an in-flight op, and must be something a submitted write could have produced; log-store invariants (durable term/commit never go back, no vote change within a term, no overwrite of committed entries), 'persist before acknowledge' at the message level (a granted vote / accepted append leaves a replica only after the term+vote / entries it attests are durable in its log store) and 'no log.Fatal without injected crash' hold throughout; non-trivial = the crash plan fired at a durable-write boundary after >=1 acknowledged write of that round; distinct = distinct case JSON",
		Gen:     genCase,
		Check:   check,
		Journal: true,
	})
}
