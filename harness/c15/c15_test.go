// C15 — AVX/SSE distance kernels agree with the portable kernels and stay in bounds.
package c15

import (
	"fmt"
	"math"
	"runtime/debug"
	"syscall"
	"testing"
	"unsafe"

	"github.com/marekgalovic/anndb/index/space"
	amath "github.com/marekgalovic/anndb/math"
	"pgregory.net/rapid"
	"verifharness/pbt"
)

func TestMain(m *testing.M) { pbt.Main(m) }

const (
	maxLen   = 4096
	pageSize = 4096
	dataPg   = 6 // data pages per arena (4096 floats = 4 pages, + slack for offsets)
)

// arena: [PROT_NONE page][dataPg data pages][PROT_NONE page]
type arena struct {
	mem  []byte
	base uintptr // first data byte (page aligned)
	end  uintptr // one past the last data byte (page aligned)
}

func newArena() *arena {
	total := (dataPg + 2) * pageSize
	mem, err := syscall.Mmap(-1, 0, total, syscall.PROT_READ|syscall.PROT_WRITE, syscall.MAP_ANON|syscall.MAP_PRIVATE)
	if err != nil {
		panic(fmt.Sprintf("harness: mmap: %v", err))
	}
	if err := syscall.Mprotect(mem[:pageSize], syscall.PROT_NONE); err != nil {
		panic(err)
	}
	if err := syscall.Mprotect(mem[total-pageSize:], syscall.PROT_NONE); err != nil {
		panic(err)
	}
	b := uintptr(unsafe.Pointer(&mem[pageSize]))
	return &arena{mem: mem, base: b, end: b + dataPg*pageSize}
}

const (
	placeOffset     = iota // 32-byte aligned base in the middle + off floats
	placeFlushEnd          // last element ends at the trailing guard page
	placeFlushStart        // first element starts right after the leading guard page
)

// place copies v into the arena per mode and returns a slice aliasing it. The
// floats around the operand are poisoned with NaN and the slice's capacity
// extends over the poisoned slack after it (as a sub-slice of a larger buffer
// would), so a kernel or wrapper that reads outside [0,len) either faults on
// the guard page or drags a NaN into its result.
func (a *arena) place(v []float32, mode, off int) []float32 {
	n := len(v)
	var start uintptr
	switch mode {
	case placeFlushEnd:
		start = a.end - uintptr(4*n)
	case placeFlushStart:
		start = a.base
	default:
		start = a.base + 1024 + uintptr(4*off) // base+1024 is 32-byte aligned
	}
	const slack = 64
	lo := start - uintptr(4*slack)
	if lo < a.base {
		lo = a.base
	}
	hi := start + uintptr(4*(n+slack))
	if hi > a.end {
		hi = a.end
	}
	nan := math.Float32frombits(0x7fc00000)
	pre := unsafe.Slice((*float32)(unsafe.Pointer(lo)), int(start-lo)/4)
	for i := range pre {
		pre[i] = nan
	}
	full := unsafe.Slice((*float32)(unsafe.Pointer(start)), int(hi-start)/4)
	for i := n; i < len(full); i++ {
		full[i] = nan
	}
	s := full[:n]
	copy(s, v)
	return s
}

var arenaA, arenaB = newArena(), newArena()

type Case struct {
	A, B   []float32 `json:"-"`
	ABits  []uint32  `json:"a"` // IEEE bit patterns (JSON cannot carry all floats exactly)
	BBits  []uint32  `json:"b"`
	OffA   int       `json:"offa"`
	OffB   int       `json:"offb"`
	ModeA  int       `json:"modea"`
	ModeB  int       `json:"modeb"`
	Class  string    `json:"class"`
	Kernel int       `json:"kernel"` // 0 avx, 1 sse
}

func (c *Case) vectors() ([]float32, []float32) {
	a := make([]float32, len(c.ABits))
	b := make([]float32, len(c.BBits))
	for i := range a {
		a[i] = math.Float32frombits(c.ABits[i])
	}
	for i := range b {
		b[i] = math.Float32frombits(c.BBits[i])
	}
	return a, b
}

var classes = []string{"zeros", "equal", "ints", "unit", "moderate", "large", "huge", "tiny", "subnormal", "mixed"}

func valueGen(class string) *rapid.Generator[float32] {
	mag := func(lo, hi float64) *rapid.Generator[float32] {
		return rapid.Custom(func(t *rapid.T) float32 {
			e := rapid.Float64Range(math.Log10(lo), math.Log10(hi)).Draw(t, "exp")
			v := float32(math.Pow(10, e))
			if rapid.Bool().Draw(t, "neg") {
				v = -v
			}
			return v
		})
	}
	switch class {
	case "zeros":
		return rapid.Just(float32(0))
	case "ints":
		return rapid.Custom(func(t *rapid.T) float32 { return float32(rapid.IntRange(-8, 8).Draw(t, "i")) })
	case "unit":
		return rapid.OneOf(mag(1e-3, 1), rapid.Just(float32(0)))
	case "moderate":
		return mag(1e-3, 1e3)
	case "large":
		return mag(1e12, 1e16)
	case "huge":
		return mag(1e19, 3e38)
	case "tiny":
		return mag(1e-30, 1e-19)
	case "subnormal":
		return rapid.Custom(func(t *rapid.T) float32 {
			return math.Float32frombits(uint32(rapid.IntRange(1, 0x7fffff).Draw(t, "bits")) | uint32(rapid.IntRange(0, 1).Draw(t, "s"))<<31)
		})
	default: // mixed
		return rapid.OneOf(mag(1e-3, 1e3), mag(1e12, 1e16), mag(1e-30, 1e-19), rapid.Just(float32(0)), mag(1e-3, 1e3))
	}
}

func genLen(t *rapid.T) int {
	switch rapid.IntRange(0, 9).Draw(t, "lenclass") {
	case 0, 1, 2, 3, 4:
		return rapid.IntRange(1, 130).Draw(t, "len")
	case 5, 6, 7:
		base := rapid.SampledFrom([]int{4, 8, 16, 32, 64, 128, 256, 512, 1024, 2048, 4096}).Draw(t, "base")
		n := base*rapid.IntRange(1, 4).Draw(t, "mul") + rapid.IntRange(-1, 1).Draw(t, "pm")
		if n < 1 {
			n = 1
		}
		if n > maxLen {
			n = maxLen
		}
		return n
	default:
		return rapid.IntRange(1, maxLen).Draw(t, "lenany")
	}
}

func genCase(t *rapid.T) Case {
	c := Case{Class: rapid.SampledFrom(classes).Draw(t, "class"), Kernel: rapid.IntRange(0, 1).Draw(t, "kernel")}
	n := genLen(t)
	g := valueGen(c.Class)
	if c.Class == "equal" {
		g = valueGen("moderate")
	}
	a := rapid.SliceOfN(g, n, n).Draw(t, "a")
	var b []float32
	if c.Class == "equal" {
		b = append([]float32(nil), a...)
	} else {
		b = rapid.SliceOfN(g, n, n).Draw(t, "b")
	}
	c.ABits, c.BBits = make([]uint32, n), make([]uint32, n)
	for i := range a {
		c.ABits[i], c.BBits[i] = math.Float32bits(a[i]), math.Float32bits(b[i])
	}
	c.ModeA = rapid.SampledFrom([]int{placeOffset, placeOffset, placeFlushEnd, placeFlushStart}).Draw(t, "modea")
	c.ModeB = rapid.SampledFrom([]int{placeOffset, placeOffset, placeFlushEnd, placeFlushStart}).Draw(t, "modeb")
	c.OffA = rapid.IntRange(0, 7).Draw(t, "offa")
	c.OffB = rapid.IntRange(0, 7).Draw(t, "offb")
	return c
}

const eps = 1.1920929e-7 // 2^-23

type refs struct {
	euclid, manh, cos   float64
	sumSq, na, nb       float64
	maxAbsDiff, minDiff float64 // over non-zero float32 differences
}

func reference(a, b []float32) refs {
	var r refs
	r.minDiff = math.Inf(1)
	var dot float64
	for i := range a {
		d32 := a[i] - b[i]
		d := float64(a[i]) - float64(b[i])
		r.sumSq += d * d
		r.manh += math.Abs(d)
		dot += float64(a[i]) * float64(b[i])
		r.na += float64(a[i]) * float64(a[i])
		r.nb += float64(b[i]) * float64(b[i])
		if ad := math.Abs(float64(d32)); ad != 0 {
			r.maxAbsDiff = math.Max(r.maxAbsDiff, ad)
			r.minDiff = math.Min(r.minDiff, ad)
		}
	}
	r.euclid = math.Sqrt(r.sumSq)
	r.cos = 1 - dot/(math.Sqrt(r.na)*math.Sqrt(r.nb))
	return r
}

const maxF32 = 3.4028234663852886e38

type verdict int

const (
	ok verdict = iota
	skip
	bad
)

// judgeEuclid: relative error <= 2n eps + 4 eps plus an underflow term; values
// near the float32 overflow threshold are skipped, far beyond it must be +Inf.
func judgeEuclid(got float32, r refs, n int) (verdict, string) {
	rel := (2*float64(n) + 4) * eps
	if r.sumSq > maxF32*(1+4*rel) {
		if math.IsInf(float64(got), 1) {
			return ok, ""
		}
		// a different summation order cannot avoid the overflow of the total
		return bad, fmt.Sprintf("got %g, squared sum %g overflows float32 (portable kernel returns +Inf)", got, r.sumSq)
	}
	if r.sumSq > maxF32*(1-4*rel)/float64(4) {
		return skip, "" // partial sums may or may not overflow
	}
	if math.IsNaN(float64(got)) || math.IsInf(float64(got), 0) {
		return bad, fmt.Sprintf("got %g, exact %g", got, r.euclid)
	}
	tol := rel*r.euclid + math.Sqrt(float64(n)*math.Pow(2, -149))*2 + math.Sqrt(float64(n))*math.Pow(2, -63)*0
	// squares below 2^-126 lose precision: error on the squared sum <= n*2^-126*2^-23 relative part is covered by
	// the absolute term sqrt(n*2^-149); add the subnormal-result term
	tol += math.Pow(2, -149)
	if math.Abs(float64(got)-r.euclid) <= tol {
		return ok, ""
	}
	// gradual underflow of individual squares: compare on the squared scale with n*2^-126*eps slack
	if math.Abs(float64(got)*float64(got)-r.sumSq) <= 2*rel*r.sumSq+float64(n)*math.Pow(2, -126)*4*eps+float64(n)*math.Pow(2, -149) {
		return ok, ""
	}
	return bad, fmt.Sprintf("got %g, exact %g, tolerance %g", got, r.euclid, tol)
}

func judgeManhattan(got float32, r refs, n int) (verdict, string) {
	rel := (2*float64(n) + 4) * eps
	if r.manh > maxF32*(1+4*rel) {
		if math.IsInf(float64(got), 1) {
			return ok, ""
		}
		return bad, fmt.Sprintf("got %g, sum %g overflows float32", got, r.manh)
	}
	if r.manh > maxF32*(1-4*rel)/4 {
		return skip, ""
	}
	if math.IsNaN(float64(got)) || math.IsInf(float64(got), 0) {
		return bad, fmt.Sprintf("got %g, exact %g", got, r.manh)
	}
	tol := rel*r.manh + float64(n)*math.Pow(2, -149)
	if math.Abs(float64(got)-r.manh) <= tol {
		return ok, ""
	}
	return bad, fmt.Sprintf("got %g, exact %g, tolerance %g", got, r.manh, tol)
}

func judgeCosine(got float32, r refs, n int) (verdict, string) {
	// domain: both squared norms comfortably representable in float32
	if r.na < 1e-30 || r.nb < 1e-30 || r.na > 1e30 || r.nb > 1e30 {
		return skip, ""
	}
	tol := (3*float64(n) + 8) * eps
	if math.IsNaN(float64(got)) || math.IsInf(float64(got), 0) || math.Abs(float64(got)-r.cos) > tol {
		return bad, fmt.Sprintf("got %g, exact %g, tolerance %g", got, r.cos, tol)
	}
	return ok, ""
}

// call runs fn with faults turned into panics; a fault is reported, not fatal.
func call(fn func() float32) (v float32, fault interface{}) {
	defer func() {
		if r := recover(); r != nil {
			fault = r
		}
	}()
	return fn(), nil
}

var kernelNames = []string{"avx", "sse"}
var modeNames = []string{"offset", "flush-end", "flush-start"}

func check(c Case, o *pbt.Obs) *pbt.Failure {
	defer debug.SetPanicOnFault(debug.SetPanicOnFault(true))
	va, vb := c.vectors()
	n := len(va)
	if n == 0 || n != len(vb) {
		return nil
	}
	a := arenaA.place(va, c.ModeA, c.OffA)
	b := arenaB.place(vb, c.ModeB, c.OffB)
	r := reference(va, vb)
	native := space.VerifNativeImpl()
	impl := space.VerifAvxImpl()
	if c.Kernel == 1 {
		impl = space.VerifSseImpl()
	}
	kn := kernelNames[c.Kernel]
	alignedA := uintptr(unsafe.Pointer(&a[0]))%16 == 0
	alignedB := uintptr(unsafe.Pointer(&b[0]))%16 == 0
	misaligned := !alignedA || !alignedB
	lane := 8
	if c.Kernel == 1 {
		lane = 4
	}
	if n >= 4 && (n%lane != 0 || misaligned) {
		o.NonTrivial()
	}
	o.Labelf("%s/len%%%d=%d", kn, lane, n%lane)
	o.Labelf("%s/class=%s", kn, c.Class)
	o.Labelf("place=%s+%s", modeNames[c.ModeA], modeNames[c.ModeB])
	if misaligned {
		o.Labelf("%s/misaligned16", kn)
	}
	if n > 130 {
		o.Label("len>130")
	}
	where := fmt.Sprintf("%s len=%d class=%s a@%s+%d(%%32=%d) b@%s+%d(%%32=%d)", kn, n, c.Class, modeNames[c.ModeA], c.OffA, uintptr(unsafe.Pointer(&a[0]))%32, modeNames[c.ModeB], c.OffB, uintptr(unsafe.Pointer(&b[0]))%32)

	// known finding: SSE kernels use aligned loads / memory operands
	if c.Kernel == 1 && n >= 4 && misaligned && pbt.Open("C15:sse-unaligned-fault") {
		pbt.CountExcluded("TestKernelsAgree", "C15:sse-unaligned-fault")
		return nil
	}
	type metric struct {
		name  string
		simd  func() float32
		nat   func() float32
		judge func(float32, refs, int) (verdict, string)
	}
	ms := []metric{
		{"euclidean", func() float32 { return impl.EuclideanDistance(amath.Vector(a), amath.Vector(b)) }, func() float32 { return native.EuclideanDistance(amath.Vector(a), amath.Vector(b)) }, judgeEuclid},
		{"manhattan", func() float32 { return impl.ManhattanDistance(amath.Vector(a), amath.Vector(b)) }, func() float32 { return native.ManhattanDistance(amath.Vector(a), amath.Vector(b)) }, judgeManhattan},
		{"cosine", func() float32 { return impl.CosineDistance(amath.Vector(a), amath.Vector(b)) }, func() float32 { return native.CosineDistance(amath.Vector(a), amath.Vector(b)) }, judgeCosine},
	}
	for _, m := range ms {
		// known findings: value regions where the SIMD arithmetic differs by design of the kernels
		if m.name == "manhattan" && n >= lane && (r.maxAbsDiff > 1e18 || r.minDiff < 1e-18) && pbt.Open("C15:manhattan-simd-sqrt-of-square") {
			pbt.CountExcluded("TestKernelsAgree", "C15:manhattan-simd-sqrt-of-square")
			continue
		}
		if m.name == "cosine" && (r.na*r.nb > 1e37 || r.na*r.nb < 1e-37) && pbt.Open("C15:cosine-simd-norm-product") {
			pbt.CountExcluded("TestKernelsAgree", "C15:cosine-simd-norm-product")
			continue
		}
		got, fault := call(m.simd)
		if fault != nil {
			return pbt.Failf("C15:fault/"+kn, "%s %s: memory fault inside the kernel: %v", where, m.name, fault)
		}
		nat, _ := call(m.nat)
		vn, _ := m.judge(nat, r, n)
		if vn == bad {
			// the portable kernel itself is outside the stated rounding bound: the
			// bound does not apply to this input (counted, not judged)
			o.Label("portable-outside-bound/" + m.name)
			continue
		}
		v, why := m.judge(got, r, n)
		switch v {
		case skip:
			o.Label("skipped-near-threshold/" + m.name)
		case bad:
			return pbt.Failf("C15:disagree/"+kn+"/"+m.name, "%s %s: %s (portable kernel: %g)", where, m.name, why, nat)
		}
	}
	return nil
}

func TestKernelsAgree(t *testing.T) {
	pbt.Run(t, pbt.Prop[Case]{
		ID: "C15", Name: "TestKernelsAgree",
		Rule: "rapid-generated operand pairs: length 1..4096 (half in 1..130, the rest around multiples of 4..4096 +-1 or uniform), each operand placed at float offset 0..7 from a 32-byte aligned base, or flush against a PROT_NONE page at its end, or right after one at its start (mmap arenas), value classes zeros/equal/small ints/unit/moderate/large(1e12..1e16)/huge(squares overflow)/tiny(squares underflow)/subnormal/mixed; AVX or SSE kernel for all three metrics vs a float64 reference with bounds rel<=2n*eps+4eps (euclidean, manhattan; plus underflow terms) and abs<=3n*eps+8eps (cosine), Inf required when the exact sum overflows, near-threshold cases skipped, faults trapped with SetPanicOnFault; non-trivial = length>=4 with a non-multiple-of-lane tail or an operand not 16-byte aligned; distinct = distinct case JSON",
		Gen:   genCase,
		Check: check,
		Journal: false,
	})
}

// ---- laws on the public Distance ------------------------------------------

type LawCase struct {
	ABits  []uint32 `json:"a"`
	BBits  []uint32 `json:"b"`
	Metric int      `json:"metric"`
	Class  string   `json:"class"`
}

func TestDistanceLaws(t *testing.T) {
	lawClasses := []string{"zeros", "equal", "ints", "unit", "moderate", "large"}
	pbt.Run(t, pbt.Prop[LawCase]{
		ID: "C15", Name: "TestDistanceLaws",
		Rule: "public space.{Euclidean,Manhattan,Cosine}.Distance on generated pairs (length 1..300, ordinary value classes): symmetric within the rounding bound, non-negative, d(a,a) within the bound of zero (cosine: non-zero a); non-trivial = length >= 9; distinct = distinct case JSON",
		Gen: func(t *rapid.T) LawCase {
			c := LawCase{Metric: rapid.IntRange(0, 2).Draw(t, "metric"), Class: rapid.SampledFrom(lawClasses).Draw(t, "class")}
			n := rapid.IntRange(1, 300).Draw(t, "len")
			g := valueGen(c.Class)
			if c.Class == "equal" {
				g = valueGen("moderate")
			}
			a := rapid.SliceOfN(g, n, n).Draw(t, "a")
			b := a
			if c.Class != "equal" {
				b = rapid.SliceOfN(g, n, n).Draw(t, "b")
			}
			for i := range a {
				c.ABits = append(c.ABits, math.Float32bits(a[i]))
				c.BBits = append(c.BBits, math.Float32bits(b[i]))
			}
			return c
		},
		Check: func(c LawCase, o *pbt.Obs) *pbt.Failure {
			cc := Case{ABits: c.ABits, BBits: c.BBits}
			a, b := cc.vectors()
			n := len(a)
			if n == 0 {
				return nil
			}
			if n >= 9 {
				o.NonTrivial()
			}
			sp := []space.Space{space.NewEuclidean(), space.NewManhattan(), space.NewCosine()}[c.Metric]
			name := []string{"euclidean", "manhattan", "cosine"}[c.Metric]
			r := reference(a, b)
			if c.Metric == 2 && (r.na < 1e-30 || r.nb < 1e-30 || r.na > 1e18 || r.nb > 1e18) {
				return nil // cosine undefined on (numerically) zero vectors; huge norms are the kernel check's subject
			}
			dab, dba := sp.Distance(a, b), sp.Distance(b, a)
			daa := sp.Distance(a, a)
			var scale, tol float64
			switch c.Metric {
			case 0:
				scale, tol = r.euclid, (2*float64(n)+4)*eps
			case 1:
				scale, tol = r.manh, (2*float64(n)+4)*eps
			default:
				scale, tol = 1, (3*float64(n)+8)*eps
			}
			if dab < 0 || dba < 0 || daa < 0 || math.IsNaN(float64(dab)) {
				return pbt.Failf("C15:law/negative/"+name, "len=%d: d(a,b)=%g d(b,a)=%g d(a,a)=%g", n, dab, dba, daa)
			}
			if math.Abs(float64(dab)-float64(dba)) > 2*tol*scale+1e-30 {
				return pbt.Failf("C15:law/asymmetric/"+name, "len=%d: d(a,b)=%g, d(b,a)=%g", n, dab, dba)
			}
			selfTol := tol
			if c.Metric != 2 {
				selfTol = 0 // a-a is exactly zero componentwise
			}
			if float64(daa) > selfTol {
				return pbt.Failf("C15:law/self-distance/"+name, "len=%d: d(a,a)=%g", n, daa)
			}
			return nil
		},
	})
}
