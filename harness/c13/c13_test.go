// C13 — the index is safe under concurrent inserts, removals and searches.
package c13

import (
	"bytes"
	"context"
	"fmt"
	"os"
	"path/filepath"
	"regexp"
	"runtime"
	"sort"
	"strings"
	"sync"
	"sync/atomic"
	"testing"
	"time"

	"github.com/anishathalye/porcupine"
	"github.com/marekgalovic/anndb/index"
	amath "github.com/marekgalovic/anndb/math"
	uuid "github.com/satori/go.uuid"
	"pgregory.net/rapid"
	"verifharness/gen"
	"verifharness/hutil"
	"verifharness/idxsm"
	"verifharness/pbt"
)

func TestMain(m *testing.M) { pbt.Main(m) }

const (
	OInsert = iota
	ORemove
	OGet
	OLen
	OSearch
	OYield
	OReload // single writer only: the snapshot install of a replica (Save, then Load of the bytes), readers keep running
)

type Op struct {
	K  int `json:"k"`
	Id int `json:"id,omitempty"`
	Q  int `json:"q,omitempty"` // search: query selector
	KK int `json:"kk,omitempty"`
	L  int `json:"l,omitempty"` // insert level
	// Cancel: search: 0 = context.Background(); n > 0 = the caller's context ends n microseconds into the search (or, for
	// n = 1, has already ended when the search starts), as a client that gives up does
	Cancel int `json:"cancel,omitempty"`
}

type Case struct {
	Cfg     idxsm.Cfg `json:"cfg"`
	NIds    int       `json:"nids"`
	Prefill []int     `json:"prefill"` // ids inserted before the goroutines start
	Writers [][]Op    `json:"writers"`
	Readers [][]Op    `json:"readers"`
	Procs   int       `json:"procs"`
	Repeat  int       `json:"repeat"`
	// Background: this many further items are stored before the goroutines start and never touched by them (searches
	// then evaluate hundreds of distances and take long enough for a caller's context to end in the middle)
	Background int `json:"background,omitempty"`
}

func genCase(t *rapid.T) Case {
	c := Case{Cfg: idxsm.GenCfg(3, false).Draw(t, "cfg"), NIds: rapid.IntRange(2, 6).Draw(t, "nids")}
	c.Cfg.Dim = 2
	if c.Cfg.Metric == 2 {
		c.Cfg.Metric = 0 // vectors are derived from (id, version); keep them away from cosine's zero-vector domain edge
	}
	single := rapid.IntRange(0, 2).Draw(t, "regime") > 0
	nw := 1
	if !single {
		nw = rapid.IntRange(2, 6).Draw(t, "writers")
	}
	nr := rapid.IntRange(0, 6).Draw(t, "readers")
	if single && nr == 0 {
		nr = 2
	}
	if rapid.IntRange(0, 9).Draw(t, "bg") == 0 {
		c.Background = rapid.IntRange(70, 110).Draw(t, "background")
	}
	ks := []int{1, 2, 5, 20}
	if c.Background > 0 {
		ks = []int{1, 5, 20, 100, 100} // wide beams: a search then evaluates most of the stored items
	}
	wop := rapid.Custom(func(t *rapid.T) Op {
		kinds := []int{OInsert, OInsert, OInsert, ORemove, ORemove, OGet, OLen, OSearch, OYield}
		if single {
			// the server's single writer (the raft apply loop) also installs snapshots into the index it serves reads from
			kinds = append(kinds, OReload)
		}
		k := rapid.SampledFrom(kinds).Draw(t, "k")
		return Op{K: k, Id: rapid.IntRange(0, c.NIds-1).Draw(t, "id"), Q: rapid.IntRange(0, 7).Draw(t, "q"), KK: rapid.SampledFrom(ks).Draw(t, "kk"), L: gen.Level().Draw(t, "l")}
	})
	rop := rapid.Custom(func(t *rapid.T) Op {
		k := rapid.SampledFrom([]int{OGet, OLen, OSearch, OSearch, OSearch, OYield}).Draw(t, "k")
		o := Op{K: k, Id: rapid.IntRange(0, c.NIds-1).Draw(t, "id"), Q: rapid.IntRange(0, 7).Draw(t, "q"), KK: rapid.SampledFrom(ks).Draw(t, "kk")}
		if k == OSearch && rapid.IntRange(0, 3).Draw(t, "gives-up") == 0 {
			o.Cancel = rapid.SampledFrom([]int{1, 1, 2, 5, 10, 30, 100}).Draw(t, "cancel")
		}
		return o
	})
	maxOps := pbt.Pick(40, 80)
	for i := 0; i < nw; i++ {
		c.Writers = append(c.Writers, rapid.SliceOfN(wop, 4, maxOps).Draw(t, "wops"))
	}
	for i := 0; i < nr; i++ {
		c.Readers = append(c.Readers, rapid.SliceOfN(rop, 4, maxOps).Draw(t, "rops"))
	}
	c.Prefill = rapid.SliceOfN(rapid.IntRange(0, c.NIds-1), 0, 3).Draw(t, "prefill")
	c.Procs = rapid.SampledFrom([]int{2, 4, 16}).Draw(t, "procs")
	c.Repeat = rapid.IntRange(1, 4).Draw(t, "repeat")
	return c
}

// vector of (id, version): unique, finite, non-zero
func vecOf(id, ver int) []float32 {
	return []float32{float32(id*10 + 1), float32(ver + 1)}
}

func query(q int) []float32 { return []float32{float32(q*7 - 20), float32(q%3 + 1)} }

type event struct {
	client     int
	op         Op
	call, ret  int64
	err        error
	vec        []float32 // get result / inserted vector
	ver        int       // insert: version inserted
	length     int
	res        index.SearchResult
	panicked   interface{}
	panicFrame string
}

// ---- per-id set model for porcupine ---------------------------------------

type setIn struct {
	kind int // OInsert / ORemove / OGet
	id   int
	ver  int
}
type setOut struct {
	ok  bool // insert: nil error; remove: nil error; get: found
	ver int  // get: version read
}

var setModel = porcupine.Model{
	Partition: func(history []porcupine.Operation) [][]porcupine.Operation {
		m := map[int][]porcupine.Operation{}
		for _, o := range history {
			id := o.Input.(setIn).id
			m[id] = append(m[id], o)
		}
		var out [][]porcupine.Operation
		for _, v := range m {
			out = append(out, v)
		}
		return out
	},
	Init: func() interface{} { return -1 }, // version present, -1 = absent
	Step: func(state, input, output interface{}) (bool, interface{}) {
		st, in, out := state.(int), input.(setIn), output.(setOut)
		switch in.kind {
		case OInsert:
			if st >= 0 {
				return !out.ok, st
			}
			if out.ok {
				return true, in.ver
			}
			return false, st
		case ORemove:
			if st >= 0 {
				return out.ok, -1
			}
			return !out.ok, st
		default: // get
			if st >= 0 {
				return out.ok && out.ver == st, st
			}
			return !out.ok, st
		}
	},
	Equal: func(a, b interface{}) bool { return a == b },
}

// ---- race log (GORACE=log_path=...) -----------------------------------------

var raceFrame = regexp.MustCompile(`\s+(/repo/\S+\.go:\d+)`)

// repoFunc finds the first function of the repository in a stack block (the line before its /repo/ file line).
var repoFunc = regexp.MustCompile(`github\.com/marekgalovic/anndb/((?:index|utils|math|storage)[\w/]*\.[^\s(]*(?:\(\*?\w+\))?[\w.]*)\(`)

func topRepoFunc(block string) string {
	if m := repoFunc.FindStringSubmatch(block); m != nil {
		return m[1]
	}
	return ""
}

func raceLogSize() (string, int64) {
	base := os.Getenv("VERIF_RACE_LOG")
	if base == "" {
		return "", 0
	}
	ms, _ := filepath.Glob(base + ".*")
	var tot int64
	name := ""
	for _, m := range ms {
		if st, err := os.Stat(m); err == nil {
			tot += st.Size()
			name = m
		}
	}
	return name, tot
}

// newRaceReports returns signatures (top repo frames of the stacks involved) of the reports written since offset.
func newRaceReports(name string, from int64) []string {
	if name == "" {
		return nil
	}
	b, err := os.ReadFile(name)
	if err != nil || int64(len(b)) <= from {
		return nil
	}
	var sigs []string
	for _, rep := range strings.Split(string(b[from:]), "==================") {
		if !strings.Contains(rep, "DATA RACE") {
			continue
		}
		var tops []string
		for _, block := range strings.Split(rep, "\n\n") {
			if f := topRepoFunc(block); f != "" && (strings.Contains(block, "by goroutine") || strings.Contains(block, "by main")) && !strings.Contains(block, "created at") {
				tops = append(tops, f)
			}
		}
		sort.Strings(tops)
		sigs = append(sigs, strings.Join(tops, " vs "))
	}
	return sigs
}

const pinnedId = 90 // pool index of the pinned entry point (never touched by programs)

const backgroundId = 1000 // pool index of the first background item

func runProgram(c Case, pin bool, o *pbt.Obs) *pbt.Failure {
	idx := idxsm.NewIndex(c.Cfg)
	sp := idxsm.NewSpace(c.Cfg.Metric)
	if pin {
		// known finding C13 (entry-point protocol under concurrent writers): keep the entry point fixed by
		// construction - one item above every generated level that no program ever removes
		if err := idx.Insert(gen.ID(pinnedId+2), amath.Vector(vecOf(pinnedId, 0)), nil, 0); err != nil {
			panic(err)
		}
		if err := idx.Insert(gen.ID(pinnedId+3), amath.Vector(vecOf(pinnedId+1, 0)), nil, 7); err != nil {
			panic(err)
		}
	}
	for i := 0; i < c.Background; i++ {
		if err := idx.Insert(gen.ID(backgroundId+i), amath.Vector(vecOf(200+i, i%7)), nil, i%3); err != nil {
			panic(err)
		}
	}
	isBackground := func(id uuid.UUID) (int, bool) {
		for i := 0; i < c.Background; i++ {
			if gen.ID(backgroundId+i) == id {
				return i, true
			}
		}
		return 0, false
	}
	var clock int64
	tick := func() int64 { return atomic.AddInt64(&clock, 1) }
	var verCtr int64
	var pre []event
	for _, id := range c.Prefill {
		ver := int(atomic.AddInt64(&verCtr, 1))
		e := event{client: -1, op: Op{K: OInsert, Id: id}, ver: ver, call: tick()}
		e.err = idx.Insert(gen.ID(id+2), amath.Vector(vecOf(id, ver)), nil, 0)
		e.ret = tick()
		pre = append(pre, e)
	}
	progs := append(append([][]Op(nil), c.Writers...), c.Readers...)
	events := make([][]event, len(progs))
	start := make(chan struct{})
	var wg sync.WaitGroup
	for ci, prog := range progs {
		wg.Add(1)
		go func(ci int, prog []Op) {
			defer wg.Done()
			<-start
			for _, op := range prog {
				e := event{client: ci, op: op}
				func() {
					defer func() {
						if r := recover(); r != nil {
							e.panicked = r
							buf := make([]byte, 8<<10)
							buf = buf[:runtime.Stack(buf, false)]
							e.panicFrame = topRepoFunc(string(buf))
							e.ret = tick()
						}
					}()
					switch op.K {
					case OInsert:
						e.ver = int(atomic.AddInt64(&verCtr, 1))
						e.call = tick()
						e.err = idx.Insert(gen.ID(op.Id+2), amath.Vector(vecOf(op.Id, e.ver)), nil, op.L)
						e.ret = tick()
					case ORemove:
						e.call = tick()
						e.err = idx.Remove(gen.ID(op.Id + 2))
						e.ret = tick()
					case OGet:
						e.call = tick()
						v, err := idx.Get(gen.ID(op.Id + 2))
						e.ret = tick()
						e.err, e.vec = err, append([]float32(nil), v...)
					case OLen:
						e.call = tick()
						e.length = idx.Len()
						e.ret = tick()
					case OSearch:
						ctx, cancel := context.Background(), func() {}
						switch {
						case op.Cancel == 1:
							ctx, cancel = context.WithCancel(ctx)
							cancel()
						case op.Cancel > 1:
							ctx, cancel = context.WithTimeout(ctx, time.Duration(op.Cancel)*time.Microsecond)
						}
						e.call = tick()
						e.res, e.err = idx.Search(ctx, amath.Vector(query(op.Q)), uint(op.KK))
						e.ret = tick()
						cancel()
						if op.Cancel > 0 && (e.err == context.Canceled || e.err == context.DeadlineExceeded) {
							// a search that honours its caller's context may give up; it must leave nothing behind (the
							// writers and the quiescence checks find out)
							e.err, e.res = nil, nil
						}
					case OReload:
						e.call = tick()
						var buf bytes.Buffer
						if e.err = idx.Save(&buf, false); e.err == nil {
							e.err = idx.Load(&buf, false)
						}
						e.ret = tick()
					case OYield:
						runtime.Gosched()
						return
					}
				}()
				if op.K != OYield {
					events[ci] = append(events[ci], e)
				}
				if e.panicked != nil {
					return
				}
			}
		}(ci, prog)
	}
	done := make(chan struct{})
	go func() { wg.Wait(); close(done) }()
	close(start)
	select {
	case <-done:
	case <-time.After(20 * time.Second):
		buf := hutil.AllStacks()
		var parked []string
		for _, g := range strings.Split(buf, "\n\n") {
			if strings.Contains(g, "/repo/index/") && (strings.Contains(g, "[semacquire") || strings.Contains(g, "[sync.") || strings.Contains(g, "RWMutex")) {
				if m := raceFrame.FindStringSubmatch(g); m != nil {
					parked = append(parked, strings.TrimPrefix(m[1], "/repo/"))
				}
			}
		}
		if len(parked) > 0 {
			return pbt.Failf("C13:deadlock", "program did not finish within 20 s; goroutines parked inside the index at %v", parked)
		}
		o.Inconclusive("program-timeout-without-index-frames")
		return nil
	}
	// (2) panics
	var all []event
	all = append(all, pre...)
	for _, es := range events {
		for _, e := range es {
			if e.panicked != nil {
				key := "C13:panic/" + e.panicFrame
				if _, isRuntime := e.panicked.(runtime.Error); isRuntime && strings.HasPrefix(e.panicFrame, "index.") {
					key = "C13:panic/runtime-error-in-index"
				}
				return pbt.Failf(key, "client %d %v panicked in %s: %v", e.client, e.op, e.panicFrame, e.panicked)
			}
			all = append(all, e)
		}
	}
	// (3) per-id linearizability
	var hist []porcupine.Operation
	windows := map[int][][3]int64{} // id -> [ver, insertCall, removeRet or maxint]
	for _, e := range all {
		switch e.op.K {
		case OInsert:
			if e.err != nil && e.err != index.ItemAlreadyExistsError {
				return pbt.Failf("C13:insert-error", "Insert(#%d) returned %v", e.op.Id, e.err)
			}
			hist = append(hist, porcupine.Operation{ClientId: e.client + 1, Input: setIn{OInsert, e.op.Id, e.ver}, Call: e.call, Output: setOut{ok: e.err == nil}, Return: e.ret})
			if e.err == nil {
				windows[e.op.Id] = append(windows[e.op.Id], [3]int64{int64(e.ver), e.call, 1 << 62})
			}
		case ORemove:
			if e.err != nil && e.err != index.ItemNotFoundError {
				return pbt.Failf("C13:remove-error", "Remove(#%d) returned %v", e.op.Id, e.err)
			}
			hist = append(hist, porcupine.Operation{ClientId: e.client + 1, Input: setIn{ORemove, e.op.Id, 0}, Call: e.call, Output: setOut{ok: e.err == nil}, Return: e.ret})
		case OReload:
			if e.err != nil {
				return pbt.Failf("C13:reload-error", "Save followed by Load of the bytes returned %v", e.err)
			}
		case OGet:
			out := setOut{ok: e.err == nil}
			if e.err == nil {
				if len(e.vec) != 2 || e.vec[0] != float32(e.op.Id*10+1) {
					return pbt.Failf("C13:get-foreign-vector", "Get(#%d) returned %v, never stored under that id", e.op.Id, e.vec)
				}
				out.ver = int(e.vec[1]) - 1
			} else if e.err != index.ItemNotFoundError {
				return pbt.Failf("C13:get-error", "Get(#%d) returned %v", e.op.Id, e.err)
			}
			hist = append(hist, porcupine.Operation{ClientId: e.client + 1, Input: setIn{OGet, e.op.Id, 0}, Call: e.call, Output: out, Return: e.ret})
		}
	}
	if res := porcupine.CheckOperationsTimeout(setModel, hist, 10*time.Second); res == porcupine.Illegal {
		return pbt.Failf("C13:not-linearizable", "the insert/remove/get outcomes on some id are not linearizable as operations on a set (%d operations)", len(hist))
	} else if res == porcupine.Unknown {
		o.Label("linearizability-check-timeout")
	}
	// removal windows: a version is live from its insert's invocation until the return of the successful remove that follows it
	type rem struct{ call, ret int64 }
	removes := map[int][]rem{}
	for _, e := range all {
		if e.op.K == ORemove && e.err == nil {
			removes[e.op.Id] = append(removes[e.op.Id], rem{e.call, e.ret})
		}
	}
	// (5) search results: every item matches a version whose possible live window overlaps the search
	for _, e := range all {
		if e.op.K != OSearch {
			continue
		}
		if e.err != nil {
			return pbt.Failf("C13:search-error", "Search returned %v", e.err)
		}
		if len(e.res) > e.op.KK {
			return pbt.Failf("C13:search-more-than-k", "%d results for k=%d", len(e.res), e.op.KK)
		}
		seen := map[uuid.UUID]bool{}
		for i, r := range e.res {
			// (the same id may legitimately appear twice while it is being removed and re-inserted: two versions, each live at some instant)
			seen[r.Id] = true
			if i > 0 && e.res[i-1].Score > r.Score {
				return pbt.Failf("C13:search-not-sorted", "scores not ascending: %g > %g", e.res[i-1].Score, r.Score)
			}
			id := -1
			for k := 0; k < c.NIds; k++ {
				if gen.ID(k+2) == r.Id {
					id = k
				}
			}
			if pin && (r.Id == gen.ID(pinnedId+2) || r.Id == gen.ID(pinnedId+3)) {
				continue // the pinned items are always live
			}
			if bi, ok := isBackground(r.Id); ok {
				if sp.Distance(query(e.op.Q), vecOf(200+bi, bi%7)) != r.Score {
					return pbt.Failf("C13:search-wrong-score", "search returned background item %d with score %g", bi, r.Score)
				}
				continue // the background items are always live
			}
			if id < 0 {
				return pbt.Failf("C13:search-unknown-id", "search returned id %s which was never inserted", gen.IDHex(r.Id))
			}
			okv := false
			for _, w := range windows[id] {
				if w[1] > e.ret { // inserted only after the search returned
					continue
				}
				if sp.Distance(query(e.op.Q), vecOf(id, int(w[0]))) != r.Score {
					continue
				}
				// was this version certainly removed before the search began? only if a successful remove of the id
				// that was invoked after this insert's invocation returned before the search was invoked, and no later
				// insert could be the one it removed: conservatively require a remove entirely inside (insertCall, searchCall)
				dead := false
				for _, rm := range removes[id] {
					if rm.call > w[1] && rm.ret < e.call {
						// some version was removed in between; it is this one only if no other version of the id was live then:
						// be conservative and treat it as dead only when this is the id's only insert before the remove
						only := true
						for _, w2 := range windows[id] {
							if w2[0] != w[0] && w2[1] < rm.ret {
								only = false
							}
						}
						if only {
							dead = true
						}
					}
				}
				if !dead {
					okv = true
				}
			}
			if !okv {
				return pbt.Failf("C13:search-item-never-live", "search [%d,%d] for query %v returned (#%d, score %g) but no version of that id with that score was live at any instant of the search", e.call, e.ret, query(e.op.Q), id, r.Score)
			}
		}
	}
	// (4)+(6) quiescence: final contents by sequential Get, Len, dump invariants, searches
	final := idxsm.Model{}
	if pin {
		final[gen.ID(pinnedId+2)] = &idxsm.Item{Vec: vecOf(pinnedId, 0)}
		final[gen.ID(pinnedId+3)] = &idxsm.Item{Vec: vecOf(pinnedId+1, 0)}
	}
	for k := 0; k < c.NIds; k++ {
		if v, err := idx.Get(gen.ID(k + 2)); err == nil {
			final[gen.ID(k+2)] = &idxsm.Item{Vec: append([]float32(nil), v...)}
		}
	}
	for i := 0; i < c.Background; i++ {
		v, err := idx.Get(gen.ID(backgroundId + i))
		if err != nil {
			return pbt.Failf("C13:background-item-lost", "background item %d, which no goroutine touched, is gone: %v", i, err)
		}
		final[gen.ID(backgroundId+i)] = &idxsm.Item{Vec: append([]float32(nil), v...)}
	}
	if l := idx.Len(); l != len(final) {
		return pbt.Failf("C13:len-after-quiescence", "Len()=%d, %d ids are retrievable", l, len(final))
	}
	d := idx.VerifDump()
	if len(d.Vertices) != len(final) {
		return pbt.Failf("C13:len-after-quiescence", "%d vertices stored, %d ids retrievable", len(d.Vertices), len(final))
	}
	if bad := idxsm.Invariants(d, sp); len(bad) > 0 {
		key := "C13:structure-after-quiescence"
		if strings.Contains(bad[0], "entry point") {
			key = "C13:entry-point-not-live-after-quiescence"
		}
		return pbt.Failf(key, "%s", strings.Join(bad, "; "))
	}
	// (7) insert-only programs inside C07's exactness regime (no link is ever dropped on layer 0: n <= 2M+1; the beam
	// covers the collection: k >= n; simple selection or the heuristic with its default sub-flags): when activity has
	// stopped, search must be exact as it is after any sequential insertion order - every stored item is returned
	insertOnly := !c.Cfg.Default && (!c.Cfg.Heur || (!c.Cfg.Ext && c.Cfg.Keep)) && len(final) >= 1 && len(final) <= 2*c.Cfg.M+1
	for _, prog := range c.Writers {
		for _, op := range prog {
			if op.K == ORemove {
				insertOnly = false
			}
		}
	}
	if insertOnly {
		o.Label("insert-only-program-judged-for-exactness")
		n := len(final)
		for q := 0; q < 8; q++ {
			res, err := idx.Search(context.Background(), amath.Vector(query(q)), uint(n))
			if err != nil {
				return pbt.Failf("C13:search-error", "Search after quiescence: %v", err)
			}
			if len(res) != n {
				return pbt.Failf("C13:stored-item-unreachable-after-quiescence", "insert-only program, %d items stored (M=%d, so no layer-0 link was ever dropped), Search(k=%d) for query %v returned %d items: a stored item can not be reached", n, c.Cfg.M, n, query(q), len(res))
			}
			if f := idxsm.CheckSearch(res, final, sp, query(q), n, "exhaustive search after quiescence"); f != nil {
				f.Key = "C13:" + strings.TrimPrefix(f.Key, "C01:")
				return f
			}
		}
	}
	for q := 0; q < 8; q++ {
		res, err := idx.Search(context.Background(), amath.Vector(query(q)), 5)
		if err != nil {
			return pbt.Failf("C13:search-error", "Search after quiescence: %v", err)
		}
		if f := idxsm.CheckSearch(res, final, sp, query(q), 5, "search after quiescence"); f != nil {
			f.Key = "C13:" + strings.TrimPrefix(f.Key, "C01:")
			return f
		}
	}
	// (8) nothing was left behind: one goroutine can still take every item out again (every removal takes the edge
	// locks of the item's neighbours: a lock that an abandoned operation never released blocks it for good)
	drained := make(chan *pbt.Failure, 1)
	go func() {
		for _, id := range idxsm.SortedIds(final) {
			if err := idx.Remove(id); err != nil {
				drained <- pbt.Failf("C13:drain-error", "after quiescence Remove of the stored item %s returned %v", gen.IDHex(id), err)
				return
			}
		}
		if l := idx.Len(); l != 0 {
			drained <- pbt.Failf("C13:len-after-quiescence", "Len()=%d after every stored item was removed", l)
			return
		}
		drained <- nil
	}()
	select {
	case f := <-drained:
		return f
	case <-time.After(10 * time.Second):
		buf := hutil.AllStacks()
		for _, g := range strings.Split(buf, "\n\n") {
			if strings.Contains(g, "c13.runProgram.func") && strings.Contains(g, "/repo/index/") && (strings.Contains(g, "[semacquire") || strings.Contains(g, "[sync.") || strings.Contains(g, "RWMutex")) {
				if m := raceFrame.FindStringSubmatch(g); m != nil {
					return pbt.Failf("C13:deadlock", "after quiescence a single goroutine removing the stored items one by one has been blocked for 10 s inside the index at %s: a lock was never released", strings.TrimPrefix(m[1], "/repo/"))
				}
			}
		}
		o.Inconclusive("drain-timeout-without-index-frames")
		return nil
	}
}

func check(c Case, o *pbt.Obs) *pbt.Failure {
	old := runtime.GOMAXPROCS(c.Procs)
	defer runtime.GOMAXPROCS(old)
	// classification: did >=2 goroutines touch the same id with at least one writer?
	touch := map[int]map[int]bool{}
	wrote := map[int]bool{}
	for ci, prog := range append(append([][]Op(nil), c.Writers...), c.Readers...) {
		for _, op := range prog {
			if op.K == OInsert || op.K == ORemove || op.K == OGet {
				if touch[op.Id] == nil {
					touch[op.Id] = map[int]bool{}
				}
				touch[op.Id][ci] = true
				if op.K != OGet {
					wrote[op.Id] = true
				}
			}
		}
	}
	for id, cs := range touch {
		if len(cs) >= 2 && wrote[id] {
			o.NonTrivial()
		}
	}
	if len(c.Writers) == 1 {
		o.Label("single-writer+readers")
	} else {
		o.Label("many-writers")
	}
	if len(c.Prefill) == 0 {
		o.Label("from-empty")
	}
	for _, prog := range c.Writers {
		for _, op := range prog {
			if op.K == OReload {
				o.Label("snapshot-install-while-readers-run")
				break
			}
		}
	}
	regime := "many-writers"
	if len(c.Writers) == 1 {
		regime = "single-writer"
	}
	for rep := 0; rep < c.Repeat; rep++ {
		name, before := raceLogSize()
		pin := false
		if len(c.Writers) > 1 && pbt.Open("many-writers/C13:entry-point-not-live-after-quiescence") {
			pin = true
			pbt.CountExcluded("TestConcurrentIndex", "many-writers/C13:entry-point-not-live-after-quiescence")
		}
		f := runProgram(c, pin, o)
		if name2, after := raceLogSize(); after > before {
			if name == "" {
				name = name2
			}
			sigs := newRaceReports(name2, before)
			for _, s := range sigs {
				key := "C13:race/" + s
				if strings.Contains(s, "setLevel") {
					key = "C13:race/setLevel-on-published-vertex"
				}
				key = regime + "/" + key
				if pbt.Open(key) {
					pbt.CountExcluded("TestConcurrentIndex", key)
					continue
				}
				return pbt.Failf(key, "the race detector reported a data race between %s while this program ran (report in %s)", s, name2)
			}
		}
		if f != nil {
			f.Key = regime + "/" + f.Key
			if pbt.Open(f.Key) {
				pbt.CountExcluded("TestConcurrentIndex", f.Key)
				continue
			}
			return f
		}
	}
	return nil
}

func TestConcurrentIndex(t *testing.T) {
	pbt.Run(t, pbt.Prop[Case]{
		ID: "C13", Name: "TestConcurrentIndex",
		Rule:    "rapid-generated concurrent programs on a fresh index.Hnsw (race-detector build): 1 writer (two thirds of the cases) or 2-6 writers plus 0-6 readers, each a list of 4-40 Insert/Remove/Get/Len/Search/yield ops, a quarter of the readers' searches with a caller context that ends 1-100 microseconds into the search or has already ended (the single writer additionally installs snapshots: Save then Load of the bytes, as a replica's apply loop does while it serves reads) over a pool of 2-6 shared ids (in one case of ten on top of 70-110 stored items that no goroutine touches), every (id,version) with a unique vector, GOMAXPROCS in {2,4,16}, each program run 1-4 times; oracles: no new race report in the GORACE log while the program ran, no panic, no deadlock (20 s watchdog with index frames in the dump), per-id insert/remove/get outcomes linearizable as a set (porcupine), every search item corresponds to a version that may have been live during the search with exactly its score, and at quiescence Len == retrievable ids == stored vertices, structural invariants hold and searches satisfy C01's predicate, and after insert-only programs inside C07's exactness regime (n <= 2M+1, k = n) every stored item is returned, and finally one goroutine can remove every stored item again (no lock was left behind); non-trivial = >=2 goroutines touch the same id and one of them writes it; distinct = distinct case JSON",
		Gen:     genCase,
		Check:   check,
		Journal: true,
	})
}

var _ = fmt.Sprint
