// C09 — dataset search equals top-k of the union of its partitions, or fails loudly.
package c09

import (
	"context"
	"fmt"
	"os"
	"runtime"
	"sort"
	"strconv"
	"testing"
	"time"

	"github.com/marekgalovic/anndb/index"
	amath "github.com/marekgalovic/anndb/math"
	uuid "github.com/satori/go.uuid"
	"pgregory.net/rapid"
	"verifharness/gen"
	"verifharness/idxsm"
	"verifharness/lite"
	"verifharness/pbt"
)

func TestMain(m *testing.M) {
	// completion order is pushed around by varying the scheduler width per shard
	if s, err := strconv.Atoi(os.Getenv("VERIF_SHARD")); err == nil {
		runtime.GOMAXPROCS([]int{1, 2, 16, 4}[s%4])
	}
	pbt.Main(m)
}

type Case struct {
	Nodes     int              `json:"nodes"`
	Metric    int              `json:"metric"`
	Dim       int              `json:"dim"`
	Placement [][]int          `json:"placement"`
	Items     [][][]float32    `json:"items"` // per partition: vectors
	Entry     int              `json:"entry"`
	Query     []float32        `json:"query"`
	K         int              `json:"k"`
	Beh       []lite.Behaviour `json:"beh"`
	Repeats   int              `json:"repeats"`
	Direct    bool             `json:"direct"` // also exercise SearchPartitions on the entry node's local partitions
}

func seq(n int) []int {
	s := make([]int, n)
	for i := range s {
		s[i] = i
	}
	return s
}

func genCase(t *rapid.T) Case {
	c := Case{Nodes: rapid.IntRange(1, 4).Draw(t, "nodes"), Metric: rapid.IntRange(0, 2).Draw(t, "metric"), Dim: rapid.IntRange(1, 4).Draw(t, "dim")}
	p := rapid.IntRange(1, 8).Draw(t, "partitions")
	if rapid.IntRange(0, 24).Draw(t, "many") == 0 {
		p = rapid.IntRange(17, 40).Draw(t, "manypartitions") // more partitions on one node than any per-request limit one might think of
	}
	vec := gen.Vector(c.Dim, c.Metric == 2)
	total := 0
	for i := 0; i < p; i++ {
		perm := rapid.Permutation(seq(c.Nodes)).Draw(t, "perm")
		c.Placement = append(c.Placement, perm[:rapid.IntRange(1, c.Nodes).Draw(t, "replicas")])
		items := rapid.SliceOfN(vec, 0, 8).Draw(t, "items")
		c.Items = append(c.Items, items)
		total += len(items)
	}
	c.Entry = rapid.IntRange(0, c.Nodes-1).Draw(t, "entry")
	c.Query = vec.Draw(t, "query")
	c.K = rapid.SampledFrom([]int{0, 1, 2, 3, 5, 8, total + 2}).Draw(t, "k")
	faulty := rapid.IntRange(0, 3).Draw(t, "faulty") == 0
	for i := 0; i < c.Nodes; i++ {
		b := lite.Behaviour{}
		if rapid.IntRange(0, 2).Draw(t, "delayed") == 0 {
			b = lite.Behaviour{Kind: lite.BehDelay, DelayUs: rapid.IntRange(0, 300).Draw(t, "us")}
		}
		if faulty && rapid.IntRange(0, 1).Draw(t, "fail") == 0 {
			b = lite.Behaviour{Kind: rapid.SampledFrom([]int{lite.BehError, lite.BehPartialThenError, lite.BehHang}).Draw(t, "failkind")}
			// how the failing call / stream ends: a plain error, gRPC status Canceled / Unknown / DeadlineExceeded /
			// Internal / Unavailable, or the bare context.Canceled value (-1) while the query's own context is alive
			b.Code = rapid.SampledFrom([]int{0, 0, 1, 1, 2, 4, 13, 14, -1, -1}).Draw(t, "code")
			if b.Kind != lite.BehHang && rapid.IntRange(0, 2).Draw(t, "transient") == 0 {
				b.Times = rapid.IntRange(1, 2).Draw(t, "times") // only the node's first call(s) fail
			}
		}
		c.Beh = append(c.Beh, b)
	}
	c.Repeats = rapid.IntRange(1, 12).Draw(t, "repeats")
	c.Direct = rapid.Bool().Draw(t, "direct")
	return c
}

func idxOf(id uint64) int { return int((id - 7001) / 13) }

type scored struct {
	id    uuid.UUID
	score float32
}

func check(c Case, o *pbt.Obs) *pbt.Failure {
	cl := lite.New(c.Nodes, c.Dim, c.Metric, c.Placement)
	defer cl.Close()
	sp := idxsm.NewSpace(c.Metric)
	var all []scored
	for p, nodes := range c.Placement {
		for _, n := range nodes {
			idx := cl.Nodes[n].Dataset.VerifPartitionIndex(p)
			for i, v := range c.Items[p] {
				if err := idx.Insert(gen.ID(10+100*p+i), amath.Vector(append([]float32(nil), v...)), index.Metadata{"p": fmt.Sprint(p)}, i%2); err != nil {
					panic(err)
				}
			}
		}
		for i, v := range c.Items[p] {
			all = append(all, scored{gen.ID(10 + 100*p + i), sp.Distance(c.Query, v)})
		}
	}
	sort.SliceStable(all, func(i, j int) bool { return all[i].score < all[j].score })
	hang := false
	anyFaulty := false
	for i, b := range c.Beh {
		cl.Beh[lite.NodeID(i)] = b
		if b.Kind == lite.BehHang {
			hang = true
		}
		if b.Kind >= lite.BehError {
			anyFaulty = true
		}
	}
	entry := cl.Nodes[c.Entry]
	desc := fmt.Sprintf("nodes=%d placement=%v sizes=%v entry=%d k=%d beh=%v", c.Nodes, c.Placement, sizes(c.Items), c.Entry, c.K, c.Beh)
	workersMax := 0
	reps := c.Repeats
	if hang && reps > 2 {
		reps = 2 // each repeat costs the caller's deadline
	}
	for rep := 0; rep < reps; rep++ {
		cl.ResetCalls()
		timeout := 10 * time.Second
		if hang {
			timeout = 50 * time.Millisecond
		}
		ctx, cancel := context.WithTimeout(context.WithValue(context.Background(), lite.TagKey{}, rep), timeout)
		res, err := entry.Dataset.Search(ctx, amath.Vector(c.Query), uint(c.K))
		cancel()
		// wait for workers still unwinding (cancelled / hung ones end promptly after cancel)
		time.Sleep(200 * time.Microsecond)
		allCalls, _ := cl.Calls()
		var calls []*lite.SearchCall
		for _, call := range allCalls {
			if call.Tag == rep { // stragglers of earlier repeats are not this search's workers
				calls = append(calls, call)
			}
		}
		if len(calls) > workersMax {
			workersMax = len(calls)
		}
		// every partition consulted exactly once, on one of its replicas
		seen := map[uuid.UUID]int{}
		failed := 0
		var union []scored
		for _, call := range calls {
			for _, pid := range call.Partitions {
				seen[pid]++
				ok := false
				for p := range c.Placement {
					if entry.Dataset.VerifPartitionId(p) == pid {
						for _, n := range c.Placement[p] {
							if n == idxOf(call.To) {
								ok = true
							}
						}
					}
				}
				if !ok {
					return pbt.Failf("C09:wrong-replica", "%s rep %d: partition %s searched on node %d which does not host it", desc, rep, gen.IDHex(pid), idxOf(call.To))
				}
			}
			if call.Err != nil || (c.Beh[idxOf(call.To)].Kind >= lite.BehError && c.Beh[idxOf(call.To)].Times == 0) {
				failed++
			}
			for _, it := range call.Items {
				union = append(union, scored{uuid.FromBytesOrNil(it.GetId()), it.GetScore()})
			}
		}
		if err == nil {
			for p := range c.Placement {
				pid := entry.Dataset.VerifPartitionId(p)
				if seen[pid] != 1 {
					return pbt.Failf("C09:partition-consulted-not-once", "%s rep %d: partition %d consulted %d times in a successful search", desc, rep, p, seen[pid])
				}
			}
			if failed > 0 {
				return pbt.Failf("C09:success-despite-failure", "%s rep %d: Search returned %d items and nil error although %d node searches failed", desc, rep, len(res), failed)
			}
			sort.SliceStable(union, func(i, j int) bool { return union[i].score < union[j].score })
			want := union
			if len(want) > c.K {
				want = want[:c.K]
			}
			if res == nil && (len(want) > 0 || c.K > 0 && len(all) > 0) {
				return pbt.Failf("C09:nil-result-without-error", "%s rep %d: Search returned (nil, nil); the partitions returned %d items", desc, rep, len(union))
			}
			if len(res) != len(want) {
				return pbt.Failf("C09:wrong-length", "%s rep %d: Search returned %d items, top-%d of the %d items the partitions returned has %d", desc, rep, len(res), c.K, len(union), len(want))
			}
			ids := map[uuid.UUID]bool{}
			inUnion := map[uuid.UUID]float32{}
			for _, u := range union {
				inUnion[u.id] = u.score
			}
			for i, r := range res {
				if r.Score != want[i].score {
					return pbt.Failf("C09:not-top-k", "%s rep %d: result[%d] score %g, expected %g (k best of the union, ascending)", desc, rep, i, r.Score, want[i].score)
				}
				if s, ok := inUnion[r.Id]; !ok || s != r.Score {
					return pbt.Failf("C09:foreign-item", "%s rep %d: result[%d] (%s,%g) is not among what the partitions returned", desc, rep, i, gen.IDHex(r.Id), r.Score)
				}
				if ids[r.Id] {
					return pbt.Failf("C09:duplicate-id", "%s rep %d: id %s twice", desc, rep, gen.IDHex(r.Id))
				}
				ids[r.Id] = true
			}
			// exactness regime cross-check against brute force over all items
			gw := all
			if len(gw) > c.K {
				gw = gw[:c.K]
			}
			if len(res) != len(gw) {
				return pbt.Failf("C09:not-global-top-k", "%s rep %d: %d results, brute force top-%d has %d", desc, rep, len(res), c.K, len(gw))
			}
			for i := range gw {
				if !closeF(res[i].Score, gw[i].score) {
					return pbt.Failf("C09:not-global-top-k", "%s rep %d: result[%d] score %g, brute force %g", desc, rep, i, res[i].Score, gw[i].score)
				}
			}
		} else {
			if err == context.DeadlineExceeded && failed == 0 {
				o.Label("deadline-without-failure(inconclusive)")
				continue
			}
			if failed == 0 {
				return pbt.Failf("C09:spurious-error", "%s rep %d: Search failed with %v although no consulted node failed", desc, rep, err)
			}
			if res != nil {
				return pbt.Failf("C09:result-with-error", "%s rep %d: Search returned %d items together with error %v", desc, rep, len(res), err)
			}
		}
	}
	// SearchPartitions on the entry node over the partitions it hosts
	if c.Direct {
		var pids []uuid.UUID
		var local []scored
		for p, nodes := range c.Placement {
			for _, n := range nodes {
				if n == c.Entry {
					pids = append(pids, entry.Dataset.VerifPartitionId(p))
					for i, v := range c.Items[p] {
						local = append(local, scored{gen.ID(10 + 100*p + i), sp.Distance(c.Query, v)})
					}
				}
			}
		}
		if len(pids) > 0 {
			o.Label("search-partitions-direct")
			sort.SliceStable(local, func(i, j int) bool { return local[i].score < local[j].score })
			if len(local) > c.K {
				local = local[:c.K]
			}
			for rep := 0; rep < c.Repeats; rep++ {
				res, err := entry.Dataset.SearchPartitions(context.Background(), pids, amath.Vector(c.Query), uint(c.K))
				if err != nil {
					return pbt.Failf("C09:spurious-error", "%s: SearchPartitions(%d local partitions) failed: %v", desc, len(pids), err)
				}
				if res == nil && len(local) > 0 {
					return pbt.Failf("C09:nil-result-without-error", "%s: SearchPartitions(%d local partitions) returned (nil, nil), expected %d items", desc, len(pids), len(local))
				}
				if len(res) != len(local) {
					return pbt.Failf("C09:wrong-length", "%s: SearchPartitions returned %d items, expected %d", desc, len(res), len(local))
				}
				for i := range local {
					if !closeF(res[i].Score, local[i].score) {
						return pbt.Failf("C09:not-top-k", "%s: SearchPartitions result[%d] score %g, expected %g", desc, i, res[i].Score, local[i].score)
					}
				}
			}
		}
	}
	if workersMax >= 2 || len(c.Placement) >= 2 {
		o.NonTrivial()
	}
	if anyFaulty {
		o.Label("failure-injected")
	}
	if workersMax >= 2 {
		o.Label("fan-out>=2-nodes")
	}
	o.Note(desc)
	return nil
}

func closeF(a, b float32) bool {
	if a == b {
		return true
	}
	d := float64(a) - float64(b)
	if d < 0 {
		d = -d
	}
	m := float64(b)
	if m < 0 {
		m = -m
	}
	if m < 1 {
		m = 1
	}
	return d <= 1e-5*m
}

func sizes(items [][][]float32) []int {
	s := make([]int, len(items))
	for i := range items {
		s[i] = len(items[i])
	}
	return s
}

func TestDatasetSearch(t *testing.T) {
	pbt.Run(t, pbt.Prop[Case]{
		ID: "C09", Name: "TestDatasetSearch",
		Rule: "rapid-generated layer-B0 clusters (1-4 simulated nodes, 1-8 partitions with generated replica sets, 0-8 items per partition = exactness regime of the default index, generated entry node, k in {0,1,2,3,5,8,total+2}, per-node search behaviour ok/delay/error/error-after-partial-stream/hang through in-memory Search client shims calling the real server; each search repeated 1-12 times, GOMAXPROCS in {1,2,4,16} by shard); oracle: shims record who was asked and what they returned: each partition exactly once on one of its replicas; if no consulted node failed the result is exactly the k best of the union of the returned streams (score sequence, ids from the union, distinct) and equals brute-force global top-k, never (nil,nil); if a consulted node failed the call errors; plus SearchPartitions on the entry node's local partitions vs brute force; non-trivial = >=2 partitions or >=2 node workers; distinct = distinct case JSON",
		Gen:   genCase,
		Check: check,
	})
}
