// C04 — replicas applying the same log hold identical contents; snapshot equals replay.
package c04

import (
	"fmt"
	"testing"

	"github.com/marekgalovic/anndb/storage"
	"pgregory.net/rapid"
	"verifharness/gen"
	"verifharness/idxsm"
	"verifharness/pbt"
	"verifharness/psm"
)

func TestMain(m *testing.M) { pbt.Main(m) }

type Case struct {
	Log  psm.Log `json:"log"`
	C1   int     `json:"c1"`   // first cut (mod len+1)
	C2   int     `json:"c2"`   // second cut, >= c1 (mod)
	Used int     `json:"used"` // restore target has applied Log[:Used%..] before (0 = fresh)
}

type replica struct {
	name string
	sm   *storage.VerifPartitionSM
}

// applyRange applies entries [lo,hi) to sm, comparing each outcome with want[i].
func applyRange(r *replica, l psm.Log, lo, hi int, want []psm.Outcome) *pbt.Failure {
	for i := lo; i < hi; i++ {
		got, delivered, err := r.sm.Apply(psm.Marshal(l.Entries[i], i), psm.NotifID(i))
		if err != nil {
			return pbt.Failf("C04:apply-error", "replica %s entry %d %s: apply returned %v (fatal in the ready loop)", r.name, i, l.Entries[i], err)
		}
		if d := psm.CompareOutcome(got, delivered, want[i]); d != "" {
			return pbt.Failf("C04:outcome-differs", "replica %s entry %d %s: %s", r.name, i, l.Entries[i], d)
		}
	}
	return nil
}

func snapshotInto(from *replica, to *replica) *pbt.Failure {
	data, err := from.sm.Snapshot()
	if err != nil {
		return pbt.Failf("C04:snapshot-error", "replica %s: snapshot returned %v", from.name, err)
	}
	if err := to.sm.Restore(data); err != nil {
		return pbt.Failf("C04:restore-error", "replica %s: restoring the %d-byte snapshot of %s returned %v (fatal in the ready loop)", to.name, len(data), from.name, err)
	}
	return nil
}

func check(c Case, o *pbt.Obs) *pbt.Failure {
	if psm.HasManyKeys(c.Log) {
		o.Label("update-whose-merged-metadata-exceeds-the-entry-limit")
	}
	l := c.Log
	n := len(l.Entries)
	c1 := c.C1 % (n + 1)
	c2 := c1 + c.C2%(n+1-c1)
	// sequential model: outcomes and final contents, plus contents at the cuts
	m := idxsm.Model{}
	want := make([]psm.Outcome, n)
	sizeAt := make([]int, n+1)
	for i, e := range l.Entries {
		want[i] = psm.ApplyModel(m, e)
		sizeAt[i+1] = len(m)
	}
	meta := psm.Meta(l)
	fresh := func(name string) *replica { return &replica{name, storage.VerifNewPartitionSM(meta)} }

	// R1: applies every entry
	r1 := fresh("R1(all)")
	if f := applyRange(r1, l, 0, n, want); f != nil {
		return f
	}
	// R2: prefix, snapshot, restore into fresh/used, rest
	src := fresh("R2src")
	if f := applyRange(src, l, 0, c1, want); f != nil {
		return f
	}
	r2 := fresh("R2(restored@c1)")
	if c.Used > 0 && n > 0 {
		u := c.Used % (c1 + 1) // a snapshot is only installed on a replica that is behind it
		// the target has applied some other prefix before it is told to restore
		other := fresh("R2pre")
		mm := idxsm.Model{}
		w2 := make([]psm.Outcome, n)
		for i := 0; i < u; i++ {
			w2[i] = psm.ApplyModel(mm, l.Entries[i])
		}
		if f := applyRange(other, l, 0, u, w2); f != nil {
			return f
		}
		r2.sm = other.sm
		if u != c1 && len(mm) > 0 {
			o.Label("restore-into-used")
		}
	}
	if f := snapshotInto(src, r2); f != nil {
		return f
	}
	if f := applyRange(r2, l, c1, c2, want); f != nil {
		return f
	}
	// R3: snapshot of the restored replica at c2, restored into a fresh one, rest
	r3 := fresh("R3(restored@c2 from restored)")
	if f := snapshotInto(r2, r3); f != nil {
		return f
	}
	if f := applyRange(r2, l, c2, n, want); f != nil {
		return f
	}
	if f := applyRange(r3, l, c2, n, want); f != nil {
		return f
	}
	// R5: the source of the first snapshot goes on applying entries and snapshots again at c2 (a long-running replica
	// snapshots its partition again and again); that second snapshot is restored into a fresh replica, which applies the rest
	if f := applyRange(src, l, c1, c2, want); f != nil {
		return f
	}
	r5 := fresh("R5(restored@c2 from a replica that had snapshotted at c1)")
	if f := snapshotInto(src, r5); f != nil {
		return f
	}
	if f := applyRange(r5, l, c2, n, want); f != nil {
		return f
	}
	if c2 > c1 {
		o.Label("second-snapshot-by-the-same-replica-restored")
	}
	// R4: replay from scratch a second time
	r4 := fresh("R4(replay)")
	if f := applyRange(r4, l, 0, n, want); f != nil {
		return f
	}
	for _, r := range []*replica{r1, r2, r3, r4, r5} {
		if d := psm.Contents(r.sm, m); d != "" {
			return pbt.Failf("C04:contents-differ", "replica %s after the whole log: %s", r.name, d)
		}
	}
	// classification
	hasRemUpdBefore, hasAfter := false, c2 < n || c1 < n
	for i := 0; i < c1; i++ {
		k := l.Entries[i].Kind
		if k != psm.KInsert && k != psm.KBatchInsert {
			hasRemUpdBefore = true
		}
	}
	if sizeAt[c1] == 0 {
		o.Label("cut-at-empty-state")
	}
	if c1 > 0 && c1 < n {
		o.Label("cut-inside-log")
	}
	if hasRemUpdBefore && hasAfter && c1 < n {
		o.NonTrivial()
	}
	o.Note(fmt.Sprintf("c1=%d c2=%d used=%d %s", c1, c2, c.Used, l.String()))
	_ = gen.ID
	return nil
}

func TestReplicasAgree(t *testing.T) {
	g := psm.Gen(psm.GenOpts{MaxIds: pbt.Pick(10, 24), MinEntries: 2, MaxEntries: pbt.Pick(40, 80), MaxDim: 4, MaxBatch: 5,
		Weights: [6]int{6, 4, 4, 3, 2, 2}})
	pbt.Run(t, pbt.Prop[Case]{
		ID: "C04", Name: "TestReplicasAgree",
		Rule: "rapid-generated log of serialized PartitionChange entries (all six kinds, small id pool, batches with duplicates; in about 1 of 1000 logs an item with 40000 metadata keys that is later updated with 30000 other keys - each map is valid, their union exceeds the format's 65535 entries) and cut points c1<=c2; replicas: R1 applies all; R2 applies [0,c1), snapshots (real partition.snapshot), the bytes are restored (real processSnapshot) into a fresh or a used state machine, then applies the rest; R3 restores a snapshot taken from the restored R2 at c2; R5 restores the second snapshot of the replica that had already snapshotted at c1 and went on applying [c1,c2); R4 replays from scratch; one batch in twelve has 16-40 items (ids repeat far apart); oracle: every per-entry outcome on every replica equals the sequential model's, apply/restore never error or panic, final contents (ids, vector bits, metadata, Len) of all replicas equal the model; non-trivial = a remove/update precedes the first cut and entries follow it; distinct = distinct case JSON",
		Gen: func(t *rapid.T) Case {
			return Case{Log: g.Draw(t, "log"), C1: rapid.IntRange(0, 100).Draw(t, "c1"), C2: rapid.IntRange(0, 100).Draw(t, "c2"), Used: rapid.IntRange(0, 100).Draw(t, "used") * rapid.IntRange(0, 1).Draw(t, "useUsed")}
		},
		Check: check,
	})
}
