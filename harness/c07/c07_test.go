// C07 — search quality: exact on small collections, high recall on large ones.
package c07

import (
	"context"
	"fmt"
	"math/rand"
	"sort"
	"testing"

	"github.com/marekgalovic/anndb/index"
	amath "github.com/marekgalovic/anndb/math"
	"pgregory.net/rapid"
	"verifharness/gen"
	"verifharness/idxsm"
	"verifharness/pbt"
)

func TestMain(m *testing.M) { pbt.Main(m) }

// ---- exactness on small insert-only collections ------------------------------

type ExactCase struct {
	M       int         `json:"m"`
	Heur    bool        `json:"heur"`
	Ef      int         `json:"ef"`
	EfC     int         `json:"efc"`
	Metric  int         `json:"metric"`
	Dim     int         `json:"dim"`
	Vecs    [][]float32 `json:"vecs"`   // insertion order
	Levels  []int       `json:"levels"` // per item
	Queries [][]float32 `json:"queries"`
	QStored []int       `json:"qstored"` // also query with stored point i (mod n)
	Ks      []int       `json:"ks"`
	// Sub: sub-flags of the heuristic mode: 0 the defaults (extendCandidates=false, keepPruned=true), 1 extend+keep, 2 extend only, 3 neither
	Sub int `json:"sub,omitempty"`
	// Dups: after item i (mod n) was inserted, an insert of an id that is already stored (Dups[i] mod (i+1)) with a
	// different vector is attempted; it is refused and must leave no trace (the collection stays insert-only)
	Dups map[int]int `json:"dups,omitempty"`
}

func genExact(t *rapid.T) ExactCase {
	c := ExactCase{
		M:      rapid.SampledFrom([]int{1, 2, 3, 4, 5, 6, 7, 8, 16}).Draw(t, "m"),
		Heur:   rapid.Bool().Draw(t, "heur"),
		Metric: rapid.IntRange(0, 2).Draw(t, "metric"),
		Dim:    rapid.IntRange(1, 6).Draw(t, "dim"),
		EfC:    rapid.SampledFrom([]int{1, 2, 4, 8, 32, 200}).Draw(t, "efc"),
		Ef:     rapid.IntRange(1, 40).Draw(t, "ef"),
	}
	n := rapid.IntRange(1, 2*c.M+1).Draw(t, "n")
	vec := gen.Vector(c.Dim, c.Metric == 2)
	c.Vecs = rapid.SliceOfN(vec, n, n).Draw(t, "vecs")
	c.Levels = rapid.SliceOfN(gen.Level(), n, n).Draw(t, "levels")
	c.Queries = rapid.SliceOfN(vec, 1, 3).Draw(t, "queries")
	c.QStored = rapid.SliceOfN(rapid.IntRange(0, 40), 0, 2).Draw(t, "qstored")
	c.Ks = rapid.SliceOfN(rapid.SampledFrom([]int{1, 2, 3, 5, 10, 33, 40}), 1, 3).Draw(t, "ks")
	if c.Heur {
		c.Sub = rapid.SampledFrom([]int{0, 0, 1, 2, 3}).Draw(t, "sub")
	}
	if rapid.IntRange(0, 2).Draw(t, "withdups") == 0 {
		c.Dups = map[int]int{}
		for _, at := range rapid.SliceOfNDistinct(rapid.IntRange(0, n-1), 1, 3, rapid.ID[int]).Draw(t, "dupat") {
			c.Dups[at] = rapid.IntRange(0, 40).Draw(t, "dupof")
		}
	}
	return c
}

func checkExact(c ExactCase, o *pbt.Obs) *pbt.Failure {
	n := len(c.Vecs)
	opts := []index.HnswOption{index.HnswM(c.M), index.HnswEf(c.Ef), index.HnswEfConstruction(c.EfC)}
	if c.Heur {
		opts = append(opts, index.HnswSearchAlgorithm(index.HnswSearchHeuristic))
		switch c.Sub {
		case 1:
			opts = append(opts, index.HnswHeuristicExtendCandidates(true), index.HnswHeuristicKeepPruned(true))
		case 2:
			opts = append(opts, index.HnswHeuristicExtendCandidates(true), index.HnswHeuristicKeepPruned(false))
		case 3:
			opts = append(opts, index.HnswHeuristicExtendCandidates(false), index.HnswHeuristicKeepPruned(false))
		}
	}
	sp := idxsm.NewSpace(c.Metric)
	idx := index.NewHnsw(uint(c.Dim), sp, opts...)
	upper := false
	for i, v := range c.Vecs {
		if err := idx.Insert(gen.ID(i+2), amath.Vector(append([]float32(nil), v...)), nil, c.Levels[i]); err != nil {
			return pbt.Failf("C07:insert-error", "insert %d: %v", i, err)
		}
		if i > 0 && c.Levels[i] > 0 {
			upper = true
		}
		if of, ok := c.Dups[i]; ok {
			// an id that is already stored, offered again with another vector and level: refused, and without a trace
			other := append([]float32(nil), c.Queries[0]...)
			if err := idx.Insert(gen.ID(of%(i+1)+2), amath.Vector(other), nil, (c.Levels[i]+1)%4); err != index.ItemAlreadyExistsError {
				return pbt.Failf("C07:duplicate-insert-not-refused", "insert of the stored id #%d returned %v", of%(i+1), err)
			}
			o.Label("refused-duplicate-insert-in-the-history")
		}
	}
	queries := append([][]float32(nil), c.Queries...)
	for _, s := range c.QStored {
		queries = append(queries, c.Vecs[s%n])
	}
	ties := false
	judged := 0
	for _, q := range queries {
		d := make([]float32, n)
		for i, v := range c.Vecs {
			d[i] = sp.Distance(q, v)
		}
		sorted := append([]float32(nil), d...)
		sort.Slice(sorted, func(i, j int) bool { return sorted[i] < sorted[j] })
		for i := 1; i < n; i++ {
			if sorted[i] == sorted[i-1] {
				ties = true
			}
		}
		for _, k := range c.Ks {
			beam := c.Ef
			if k > beam {
				beam = k
			}
			if n > beam {
				continue // outside the regime the statement covers
			}
			judged++
			res, err := idx.Search(context.Background(), amath.Vector(q), uint(k))
			if err != nil {
				return pbt.Failf("C07:search-error", "%v", err)
			}
			want := n
			if k < want {
				want = k
			}
			where := fmt.Sprintf("sub=%d dups=%v M=%d heur=%v ef=%d efc=%d metric=%d n=%d k=%d levels=%v", c.Sub, c.Dups, c.M, c.Heur, c.Ef, c.EfC, c.Metric, n, k, c.Levels)
			if len(res) != want {
				return pbt.Failf("C07:not-exact/length", "%s: %d results, expected min(k,n)=%d", where, len(res), want)
			}
			seen := map[string]bool{}
			for i, r := range res {
				if r.Score != sorted[i] {
					return pbt.Failf("C07:not-exact/order", "%s: result[%d] has score %g, the %d-th nearest item is at %g (sorted true distances %v)", where, i, r.Score, i, sorted[i], sorted[:want])
				}
				// the id's true distance must be its score
				found := false
				for j := range c.Vecs {
					if gen.ID(j+2) == r.Id {
						found = true
						if d[j] != r.Score {
							return pbt.Failf("C07:not-exact/score", "%s: id #%d returned with score %g, true distance %g", where, j, r.Score, d[j])
						}
					}
				}
				if !found || seen[r.Id.String()] {
					return pbt.Failf("C07:not-exact/id", "%s: result[%d] id unknown or repeated", where, i)
				}
				seen[r.Id.String()] = true
			}
		}
	}
	if judged > 0 && n >= 3 && (upper || ties) {
		o.NonTrivial()
	}
	if upper {
		o.Label("upper-levels")
	}
	if ties {
		o.Label("ties")
	}
	if n == 2*c.M+1 {
		o.Label("n=2M+1")
	}
	return nil
}

func TestExactOnSmallCollections(t *testing.T) {
	pbt.Run(t, pbt.Prop[ExactCase]{
		ID: "C07", Name: "TestExactOnSmallCollections",
		Rule: "rapid-generated insert-only collections with n in [1,2M+1] (M in {1..8,16}, default mMax/mMax0), generated insertion order, arbitrary levels 0..6, both selection modes, the heuristic with its default sub-flags and with the three other (extendCandidates, keepPruned) combinations; in a third of the cases 1-3 inserts of an already stored id with another vector are attempted during the history (refused, and must leave no trace), efConstruction in {1..200}, ef 1..40, three metrics, grid (tie-heavy) and float vectors, queries incl. stored points, k in {1..40}; judged only where n<=max(ef,k); oracle: the score sequence equals the sorted brute-force distances[:min(k,n)] exactly and every id's true distance equals its score; non-trivial = n>=3 with upper levels or ties present; distinct = distinct case JSON",
		Gen:      genExact,
		Replicas: pbt.Pick(2, 4),
		Check:    checkExact,
	})
}

// ---- recall on larger collections ---------------------------------------------

type RecallCase struct {
	Dim    int   `json:"dim"`
	Dist   int   `json:"dist"` // 0 uniform [0,1), 1 standard normal
	Metric int   `json:"metric"`
	N      int   `json:"n"`
	Seed   int64 `json:"seed"`
}

func (c RecallCase) Cell() string {
	return fmt.Sprintf("dim=%d/dist=%s/metric=%s/n=%d", c.Dim, []string{"uniform", "normal"}[c.Dist], []string{"euclidean", "manhattan", "cosine"}[c.Metric], c.N)
}

// MeasureRecall builds the index with default parameters and returns mean recall@10 over nq queries.
func MeasureRecall(c RecallCase, nq int) float64 {
	rng := rand.New(rand.NewSource(c.Seed))
	rand.Seed(c.Seed) // RandomLevel() draws from the global source
	mk := func() []float32 {
		v := make([]float32, c.Dim)
		for i := range v {
			if c.Dist == 0 {
				v[i] = rng.Float32()
			} else {
				v[i] = float32(rng.NormFloat64())
			}
		}
		return v
	}
	sp := idxsm.NewSpace(c.Metric)
	idx := index.NewHnsw(uint(c.Dim), sp)
	data := make([][]float32, c.N)
	for i := range data {
		data[i] = mk()
		if err := idx.Insert(gen.ID(i+2), amath.Vector(data[i]), nil, idx.RandomLevel()); err != nil {
			panic(err)
		}
	}
	type ds struct {
		i int
		d float32
	}
	total := 0.0
	for qi := 0; qi < nq; qi++ {
		q := mk()
		all := make([]ds, c.N)
		for i, v := range data {
			all[i] = ds{i, sp.Distance(q, v)}
		}
		sort.Slice(all, func(a, b int) bool { return all[a].d < all[b].d })
		truth := map[string]bool{}
		for _, e := range all[:10] {
			truth[gen.ID(e.i+2).String()] = true
		}
		res, err := idx.Search(context.Background(), amath.Vector(q), 10)
		if err != nil {
			panic(err)
		}
		hit := 0
		for _, r := range res {
			if truth[r.Id.String()] {
				hit++
			}
		}
		total += float64(hit) / 10
	}
	return total / float64(nq)
}

func TestRecallSweep(t *testing.T) {
	if testing.Short() || len(sweepEnv()) == 0 {
		t.Skip("measurement helper; set VERIF_C07_SWEEP=1")
	}
	for _, dim := range []int{8, 16, 32, 64} {
		for dist := 0; dist < 2; dist++ {
			for metric := 0; metric < 3; metric++ {
				for _, n := range []int{2000, 5000} {
					dim, dist, metric, n := dim, dist, metric, n
					t.Run("", func(t *testing.T) {
						t.Parallel()
						for seed := int64(1); seed <= 3; seed++ {
							c := RecallCase{dim, dist, metric, n, seed}
							fmt.Printf("RECALL %s seed=%d %.3f\n", c.Cell(), seed, MeasureRecall(c, 200))
						}
					})
				}
			}
		}
	}
}

// hardCells: cells whose mean recall@10 measured on the unchanged tree (3 seeds x 200 queries each,
// 2026-09-24) is >= 0.85: the property's 0.8 floor is a hard check there.
// Every other cell of the stated range (dim 32 with n=5000, dim 64) measured between 0.60 and 0.85 with
// default parameters (ef=20) - recorded as known finding C07:recall-below-floor; not generated while it is open.
func hardCell(dim, n int) bool {
	return dim <= 16 || (dim == 32 && n <= 2000)
}

func TestRecallFloor(t *testing.T) {
	pbt.Run(t, pbt.Prop[RecallCase]{
		ID: "C07", Name: "TestRecallFloor",
		Rule: "cells (dimension in {8,16,32,64} x uniform/standard-normal x 3 metrics x n in {2000,3000,5000}) with a generated data seed: an insert-only index with default parameters and RandomLevel() levels is built, 200 fresh queries are searched with k=10 and compared with brute force under the same Distance; oracle: mean recall@10 > 0.8 (the property's floor, nothing stricter); cells listed under known finding C07:recall-below-floor are not generated while it is open (counted); every index is non-trivial; distinct = distinct (cell, seed)",
		Gen: func(t *rapid.T) RecallCase {
			for {
				c := RecallCase{
					Dim:    rapid.SampledFrom([]int{8, 16, 32, 64}).Draw(t, "dim"),
					Dist:   rapid.IntRange(0, 1).Draw(t, "dist"),
					Metric: rapid.IntRange(0, 2).Draw(t, "metric"),
					N:      rapid.SampledFrom([]int{2000, 3000, 5000}).Draw(t, "n"),
					Seed:   rapid.Int64Range(1, 1<<40).Draw(t, "seed"),
				}
				if c.Dim >= 32 && c.N == 3000 {
					c.N = 2000
				}
				if !hardCell(c.Dim, c.N) && pbt.Open("C07:recall-below-floor") {
					pbt.CountExcluded("TestRecallFloor", "C07:recall-below-floor")
					// steer to the nearest judged cell instead of discarding the draw
					if c.Dim == 64 {
						c.Dim = 16
					} else {
						c.N = 2000
					}
				}
				return c
			}
		},
		Check: func(c RecallCase, o *pbt.Obs) *pbt.Failure {
			r := MeasureRecall(c, 200)
			o.NonTrivial()
			o.Labelf("cell:%s", c.Cell())
			o.Note(fmt.Sprintf("%s seed=%d recall@10=%.3f", c.Cell(), c.Seed, r))
			if !(r > 0.8) {
				return pbt.Failf("C07:recall-below-floor/"+c.Cell(), "mean recall@10 over 200 queries is %.3f (floor 0.8), seed %d", r, c.Seed)
			}
			return nil
		},
	})
}
