package c07

import "os"

func sweepEnv() string { return os.Getenv("VERIF_C07_SWEEP") }
