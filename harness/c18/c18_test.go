// C18 — membership changes and restarts never wedge a node's control plane.
package c18

import (
	"errors"
	"fmt"
	"os"
	"regexp"
	"runtime"
	"sort"
	"strings"
	"testing"
	"time"

	"github.com/coreos/etcd/raft/raftpb"
	"github.com/marekgalovic/anndb/storage"
	"github.com/marekgalovic/anndb/storage/wal"
	uuid "github.com/satori/go.uuid"
	"pgregory.net/rapid"
	"verifharness/catalog"
	"verifharness/hutil"
	"verifharness/pbt"
)

func TestMain(m *testing.M) { pbt.Main(m) }

const self = uint64(1)

const (
	ActAddNode = iota
	ActRemoveNode
	ActCreate
	ActDelete
	ActYield
)

type Act struct {
	Poison bool `json:"poison,omitempty"` // create: the local replicas' log stores are corrupt (raft panics while loading them)
	// Unreadable (with Poison): the stored snapshot of the local replicas' log stores cannot be read instead: starting the
	// raft group returns an error, which the allocator ignores; the partition is unloaded later like any other
	Unreadable bool       `json:"unreadable,omitempty"`
	K          int        `json:"k"`
	Node       uint64     `json:"node,omitempty"`
	Slot       int        `json:"slot,omitempty"`
	Nodes      [][]uint64 `json:"nodes,omitempty"`
	Repl       int        `json:"repl,omitempty"` // create: replication factor (partitions with fewer nodes are under-replicated: the allocator proposes joining peers for them)
}

func (a Act) String() string {
	switch a.K {
	case ActAddNode:
		return fmt.Sprintf("AddNode(%d)", a.Node)
	case ActRemoveNode:
		return fmt.Sprintf("RemoveNode(%d)", a.Node)
	case ActCreate:
		return fmt.Sprintf("applyCreate(ds%d,%v)", a.Slot, a.Nodes)
	case ActDelete:
		return fmt.Sprintf("applyDelete(ds%d)", a.Slot)
	}
	return "yield"
}

type Case struct {
	// Loop is what the zero group's ready loop does in order: membership changes
	// (processConfChange -> Conn.AddNode/RemoveNode) and catalogue applies.
	Loop []Act `json:"loop"`
	// Join is a second goroutine adding peers (NodesManager.tryJoin at start-up).
	Join []Act `json:"join"`
	// Commit: the zero group accepts what this node proposes (the allocator's replica-set changes) and the ready
	// loop applies each proposal Lag steps after it first sees it, i.e. behind entries that were already in the log.
	// Without it every proposal fails at once (a node that knows no leader).
	Commit bool `json:"commit,omitempty"`
	Lag    int  `json:"lag,omitempty"`
	// Late (with Commit): the proposing goroutine is descheduled after it handed its proposal over and runs again only
	// when the ready loop has applied it.
	Late bool `json:"late,omitempty"`
}

func genCase(t *rapid.T) Case {
	node := rapid.Custom(func(t *rapid.T) uint64 { return uint64(6000 + rapid.IntRange(0, 24).Draw(t, "node")) })
	nodeSet := rapid.SampledFrom([][]uint64{{6001}, {6002, 6003}, {}, {}, {self}, {6004}})
	act := rapid.Custom(func(t *rapid.T) Act {
		k := rapid.SampledFrom([]int{ActAddNode, ActAddNode, ActAddNode, ActRemoveNode, ActRemoveNode, ActCreate, ActCreate, ActDelete, ActYield}).Draw(t, "k")
		a := Act{K: k}
		switch k {
		case ActAddNode, ActRemoveNode:
			a.Node = node.Draw(t, "n")
		case ActCreate:
			a.Slot = rapid.IntRange(0, 7).Draw(t, "slot")
			a.Nodes = rapid.SliceOfN(nodeSet, 1, 8).Draw(t, "nodes")
			a.Poison = rapid.IntRange(0, 5).Draw(t, "poison") == 0
			a.Unreadable = a.Poison && rapid.Bool().Draw(t, "unreadable")
			a.Repl = rapid.SampledFrom([]int{1, 1, 2, 3}).Draw(t, "repl")
		case ActDelete:
			a.Slot = rapid.IntRange(0, 7).Draw(t, "slot")
		}
		return a
	})
	joinAct := rapid.Custom(func(t *rapid.T) Act {
		if rapid.IntRange(0, 5).Draw(t, "y") == 0 {
			return Act{K: ActYield}
		}
		return Act{K: ActAddNode, Node: node.Draw(t, "n")}
	})
	c := Case{Loop: rapid.SliceOfN(act, 4, pbt.Pick(40, 80)).Draw(t, "loop"), Join: rapid.SliceOfN(joinAct, 0, 20).Draw(t, "join")}
	c.Commit = rapid.IntRange(0, 2).Draw(t, "commit") > 0
	c.Lag = rapid.IntRange(0, 3).Draw(t, "lag")
	// one case in thirty: a storm of membership changes (a flapping peer's history replayed after a restart, a follower
	// catching up) while this node leads an under-replicated partition and its proposals are committed with a lag - the
	// allocator's backlog of reactions grows far beyond any fixed bound
	if rapid.Uint64().Draw(t, "storm")%30 == 17 {
		c.Commit, c.Lag = true, 3
		storm := []Act{{K: ActCreate, Slot: 9, Nodes: [][]uint64{{self}}, Repl: 3}}
		for i := 0; i < 120; i++ {
			storm = append(storm, Act{K: ActAddNode, Node: uint64(7000 + i)})
		}
		at := rapid.IntRange(0, len(c.Loop)).Draw(t, "stormat")
		c.Loop = append(append(append([]Act(nil), c.Loop[:at]...), storm...), c.Loop[at:]...)
	}
	c.Late = rapid.IntRange(0, 3).Draw(t, "late") == 0
	return c
}

type corruptWAL struct{ wal.WAL }

func (c corruptWAL) InitialState() (raftpb.HardState, raftpb.ConfState, error) {
	return raftpb.HardState{Term: 1, Commit: 3}, raftpb.ConfState{}, nil
}

type unreadableWAL struct{ wal.WAL }

func (c unreadableWAL) Snapshot() (raftpb.Snapshot, error) {
	return raftpb.Snapshot{}, errors.New("sim: stored snapshot is damaged")
}

var cyclePat = regexp.MustCompile(`Allocator\)\.(watch|unwatch)|Allocator\)\.(addNodeToPartitions|removeNodeFromPartitions|runNodeChanges)|Conn\)\.sendNodesChangeNotification|Conn\)\.(AddNode|RemoveNode|NodeIds)`)

// runOnce executes the program; returns "" if everything completed, else a
// description of the stall including the blocked repository frames.
func runOnce(c Case, stallAfter time.Duration, o *pbt.Obs) (stall string, pendingDuringWatch bool) {
	// partitions of "poisoned" datasets get a log store whose hard state points past its (empty) log:
	// raft panics while loading it, which the allocator loop is written to survive
	poisoned := map[uuid.UUID]bool{}
	unreadable := map[uuid.UUID]bool{}
	for _, a := range c.Loop {
		if a.K == ActCreate && a.Poison {
			for p := range a.Nodes {
				poisoned[catalog.PartitionID(a.Slot, 0, p)] = true
				unreadable[catalog.PartitionID(a.Slot, 0, p)] = a.Unreadable
			}
		}
	}
	storage.VerifSetWALWrapper(func(id uuid.UUID, w wal.WAL) wal.WAL {
		if poisoned[id] && unreadable[id] {
			return unreadableWAL{w}
		}
		if poisoned[id] {
			return corruptWAL{w}
		}
		return w
	})
	defer storage.VerifSetWALWrapper(nil)
	r := catalog.NewReplica("node", self, []uint64{self})
	r.G.Commit, r.G.Late = c.Commit, c.Commit && c.Late
	m := catalog.Model{}
	ever := map[int]bool{}
	done := make(chan struct{}, 2)
	joinDone := make(chan struct{})
	progress := make(chan string, 1024)
	// proposals this node made (the allocator's replica-set changes) that the zero group accepted: the ready loop
	// applies each one c.Lag steps after it first sees it - entries that were in the log before it come first
	type due struct {
		at int
		p  catalog.Pending
	}
	var queue []due
	applied := 0
	applyDue := func(i int, all bool) {
		if c.Commit {
			electLoaded(r)
		}
		for _, p := range r.G.TakePending() {
			queue = append(queue, due{i + c.Lag, p})
		}
		for len(queue) > 0 && (all || queue[0].at <= i) {
			_ = r.G.Process(queue[0].p.Data)
			queue[0].p.Applied()
			queue = queue[1:]
			applied++
		}
	}
	go func() {
		defer func() { done <- struct{}{} }()
		for i, a := range c.Loop {
			applyDue(i, false)
			switch a.K {
			case ActAddNode:
				r.Conn.AddNode(a.Node, "127.0.0.1:9")
			case ActRemoveNode:
				r.Conn.RemoveNode(a.Node)
			case ActCreate:
				if ever[a.Slot] {
					continue
				}
				ever[a.Slot] = true
				op := catalog.Op{K: catalog.OpCreate, Slot: a.Slot, Dim: 2, Nodes: a.Nodes, Repl: a.Repl}
				_ = r.G.Process(catalog.Marshal(op, i, m))
				catalog.ApplyModel(m, op)
			case ActDelete:
				op := catalog.Op{K: catalog.OpDelete, Slot: a.Slot}
				_ = r.G.Process(catalog.Marshal(op, i, m))
				catalog.ApplyModel(m, op)
			case ActYield:
				runtime.Gosched()
			}
			select {
			case progress <- fmt.Sprintf("loop[%d] %s done", i, a):
			default:
			}
		}
		// the probes: one more catalogue entry and one more membership change must complete
		op := catalog.Op{K: catalog.OpCreate, Slot: 99, Dim: 2, Nodes: [][]uint64{{6001}}}
		_ = r.G.Process(catalog.Marshal(op, 9000, m))
		r.Conn.AddNode(7777, "127.0.0.1:9")
		// the ready loop goes on applying what gets committed until the node is idle, then the node is shut down
		<-joinDone
		for k := 0; k < 3; k++ {
			applyDue(0, true)
			r.Flush()
		}
		applyDue(0, true)
		// third probe: the allocator still reacts to membership changes - a peer joining while this node leads an
		// under-replicated partition makes it propose a replica for that partition (the joiner, or an earlier
		// joiner whose notification it had not handled yet)
		probe := catalog.Op{K: catalog.OpCreate, Slot: 98, Dim: 2, Nodes: [][]uint64{{self}}, Repl: 2}
		_ = r.G.Process(catalog.Marshal(probe, 9001, m))
		r.Conn.AddNode(7778, "127.0.0.1:9")
		select {
		case progress <- "probes: create + AddNode done, waiting for the allocator to propose the joiner for the under-replicated partition it leads":
		default:
		}
		blockedSince := time.Time{}
		for n := 0; !r.G.ProposedNodeChange(catalog.DatasetID(98)); n++ {
			applyDue(0, true)
			time.Sleep(100 * time.Microsecond)
			if n%100 == 99 {
				// the worker may be inside a proposal to a partition's own raft group that has no leader (a group
				// that is still electing, or one that lost its quorum when a peer that does not exist was added to
				// it): that wait is raft's, it ends when the group gets a leader or is stopped, and it is not what
				// the property is about - the third probe is skipped
				electLoaded(r)
				if workerInsidePartitionGroupProposal() {
					if blockedSince.IsZero() {
						blockedSince = time.Now()
					} else if time.Since(blockedSince) > 150*time.Millisecond {
						o.Label("third-probe-skipped:allocator-worker-waits-for-a-partition-group-without-leader")
						break
					}
				} else {
					blockedSince = time.Time{}
				}
			}
		}
		for k := 0; k < 2; k++ {
			applyDue(0, true)
			r.Flush()
		}
		applyDue(0, true)
		if applied > 0 {
			o.Label("the-ready-loop-applied-replica-set-changes-proposed-by-the-allocator")
		}
		r.Close()
	}()
	go func() {
		defer func() { done <- struct{}{} }()
		defer close(joinDone)
		for _, a := range c.Join {
			if a.K == ActYield {
				runtime.Gosched()
				continue
			}
			r.Conn.AddNode(a.Node, "127.0.0.1:9")
		}
	}()
	timer := time.NewTimer(stallAfter)
	defer timer.Stop()
	for n := 0; n < 2; {
		select {
		case <-done:
			n++
		case <-timer.C:
			d1 := parked()
			time.Sleep(2 * time.Second)
			d2 := parked()
			last := "nothing completed"
			for {
				select {
				case p := <-progress:
					last = p
					continue
				default:
				}
				break
			}
			confirmed := len(d1) > 0 && fmt.Sprint(d1) == fmt.Sprint(d2)
			// the stuck replica is abandoned (its goroutines are parked forever)
			return fmt.Sprintf("no progress for %v; last completed: %s; repository goroutines parked in blocking waits, identical 2 s later=%v: %s", stallAfter, last, confirmed, strings.Join(d2, " | ")), confirmed
		}
	}
	return "", false
}

// electLoaded makes every partition group loaded on the node campaign if it has no leader yet (single-member groups
// elect themselves at once instead of after a second of real ticks).
func electLoaded(r *catalog.Replica) {
	for _, g := range r.Tr.VerifGroups() {
		if st := g.VerifStatus(); st.Lead == 0 {
			g.VerifCampaign()
		}
	}
}

func workerInsidePartitionGroupProposal() bool {
	buf := hutil.AllStacks()
	for _, g := range strings.Split(buf, "\n\n") {
		if strings.Contains(g, "Allocator).runNodeChanges") && (strings.Contains(g, "RaftGroup).ProposeJoin") || strings.Contains(g, "RaftGroup).ProposeLeave")) {
			return true
		}
	}
	return false
}

var gHeader = regexp.MustCompile(`^goroutine (\d+) \[([^\],]+)`)

// parked lists "goroutine id [state] frames" for every goroutine that is inside
// Allocator/Conn code and in a blocking wait state; goroutines abandoned by
// earlier stalled runs are excluded by remembering their ids.
var abandoned = map[string]bool{}

func parked() []string {
	buf := hutil.AllStacks()
	var out []string
	for _, g := range strings.Split(buf, "\n\n") {
		m := gHeader.FindStringSubmatch(g)
		if m == nil || abandoned[m[1]] || !strings.Contains(g, "/repo/") {
			continue
		}
		var fs []string
		for _, l := range strings.Split(g, "\n") {
			if mm := cyclePat.FindString(l); mm != "" {
				fs = append(fs, mm)
			}
		}
		if len(fs) == 0 {
			continue
		}
		if os.Getenv("VERIF_DEBUG") != "" {
			fmt.Println("PARKED-DEBUG:\n" + g)
		}
		switch m[2] {
		case "chan send", "chan receive", "semacquire", "sync.Mutex.Lock", "sync.RWMutex.RLock", "sync.RWMutex.Lock", "select", "sync.Cond.Wait":
			out = append(out, fmt.Sprintf("g%s[%s] %s", m[1], m[2], strings.Join(fs, "<-")))
		default:
			return nil // somebody in this code is runnable/running: not a dead state
		}
	}
	sort.Strings(out)
	return out
}

func abandon(ds []string) {
	for _, d := range ds {
		if m := regexp.MustCompile(`^g(\d+)\[`).FindStringSubmatch(d); m != nil {
			abandoned[m[1]] = true
		}
	}
}

func check(c Case, o *pbt.Obs) *pbt.Failure {
	stall, confirmed := runOnce(c, 10*time.Second, o)
	creates, changes := 0, 0
	for _, a := range c.Loop {
		if a.K == ActCreate || a.K == ActDelete {
			creates++
		}
		if a.K == ActAddNode || a.K == ActRemoveNode {
			changes++
		}
	}
	if creates > 0 && changes > 0 {
		o.NonTrivial()
	}
	if changes+len(c.Join) > 10 {
		o.Label("burst>10-membership-changes")
	}
	if changes > 100 {
		o.Label("storm-of-membership-changes")
	}
	if stall == "" {
		return nil
	}
	// a stall is reported only if the program's goroutines are parked inside Allocator/Conn code in
	// blocking wait states and are still exactly there 2 s later (a dead state: every wait in this code is
	// on in-memory operations that take microseconds); anything else is inconclusive
	abandon(parked())
	if !confirmed || !cyclePat.MatchString(stall) {
		o.Inconclusive("stall-not-confirmed-as-dead-state")
		return nil
	}
	var p []string
	for _, a := range c.Loop {
		p = append(p, a.String())
	}
	return pbt.Failf("C18:control-plane-wedged", "%s; program: loop=[%s] join=%d AddNode calls", stall, strings.Join(p, " "), len(c.Join))
}

func TestControlPlaneNeverWedges(t *testing.T) {
	pbt.Run(t, pbt.Prop[Case]{
		ID: "C18", Name: "TestControlPlaneNeverWedges",
		Rule:  "rapid-generated programs on real Allocator + Conn + DatasetManager objects (scripted zero group): one goroutine plays the zero group's ready loop and performs, in generated order, Conn.AddNode/RemoveNode (as processConfChange does) and catalogue applies (create datasets with 1-8 partitions incl. partitions placed on this node, delete datasets; one create in six gets damaged local log stores - loading their raft groups panics, or starting them returns an error - which the allocator loop must survive, and such partitions are unloaded later like any other); a second goroutine adds up to 20 peers (join at start-up); in two thirds of the cases the scripted zero group accepts the allocator's own proposals (replica-set changes for partitions it leads) and the ready-loop goroutine applies each one 0-3 steps after it first sees it, i.e. behind entries that were ahead of it in the log; in a quarter of those the proposing goroutine runs again only once its proposal has been applied; then a probe create and a probe AddNode must complete, and after a further peer joins the allocator must propose it for an under-replicated partition this node leads. A stall is reported only if nothing completes for 10 s and the goroutine dump shows the program's repository goroutines all parked in blocking waits inside Allocator.watch/unwatch/addNodeToPartitions/removeNodeFromPartitions or Conn notification code, unchanged in a second dump 2 s later (a dead state); otherwise the case is counted inconclusive. non-trivial = the loop mixes membership changes with catalogue applies; distinct = distinct case JSON",
		Gen:   genCase,
		Check: check,
	})
}
