// C20 — every member's view of cluster membership converges and survives restart.
package c20

import (
	"context"
	"errors"
	"fmt"
	"github.com/golang/protobuf/proto"
	"net"
	"os"
	"sort"
	"strconv"
	"strings"
	"sync"
	"testing"
	"time"

	etcdRaft "github.com/coreos/etcd/raft"
	badger "github.com/dgraph-io/badger/v2"
	"github.com/marekgalovic/anndb/cluster"
	pb "github.com/marekgalovic/anndb/protobuf"
	"github.com/marekgalovic/anndb/services"
	"github.com/marekgalovic/anndb/storage/raft"
	"github.com/marekgalovic/anndb/storage/wal"
	uuid "github.com/satori/go.uuid"
	"google.golang.org/grpc"
	"pgregory.net/rapid"
	"verifharness/hutil"
	"verifharness/pbt"
	"verifharness/sim"
)

func TestMain(m *testing.M) { pbt.Main(m) }

const (
	SJoin = iota
	SRemove
	SRestart
	SSnapshot
	STick
	SLinkTape
)

var sNames = []string{"join", "remove", "restart", "snapshot", "tick", "link-tape"}

type Step struct {
	K    int   `json:"k"`
	A    int   `json:"a"`             // member index the step is about (joiner / removed / restarted / snapshotting)
	Via  int   `json:"via,omitempty"` // member asked to perform the join / removal (mod members that are in)
	Cut  int   `json:"cut,omitempty"` // join: break the reply stream after Cut nodes (0 = no loss)
	N    int   `json:"n,omitempty"`
	B    int   `json:"b,omitempty"`
	Tape []int `json:"tape,omitempty"`
	// join: raft traffic to the joiner is lost until the members have compacted their logs past its join entry, so the
	// joiner (which has the member list from the handshake) gets its whole membership log as a snapshot
	Behind bool `json:"behind,omitempty"`
	// remove: one other member misses the log replication of the removal (heartbeats still reach it); the removed node
	// then restarts and announces itself again - same address - through that lagging member
	Rejoin bool `json:"rejoin,omitempty"`
	// join: one other member misses this join - raft traffic to it is lost until the others have compacted their logs, so
	// it learns of the joiner through a leader snapshot; it then applies an ordinary entry, compacts its own log and
	// restarts (what it lists afterwards comes from the snapshot it wrote itself)
	Missed bool `json:"missed,omitempty"`
}

type Case struct {
	Steps []Step `json:"steps"`
}

func (c Case) String() string {
	var p []string
	for _, s := range c.Steps {
		p = append(p, fmt.Sprintf("%s(a=%d,via=%d,cut=%d,n=%d)", sNames[s.K], s.A, s.Via, s.Cut, s.N))
	}
	return strings.Join(p, " ")
}

const maxMembers = 5

func genCase(t *rapid.T) Case {
	step := rapid.Custom(func(t *rapid.T) Step {
		k := rapid.SampledFrom([]int{SJoin, SJoin, SJoin, SRemove, SRestart, SRestart, SSnapshot, STick, STick, SLinkTape}).Draw(t, "k")
		s := Step{K: k, A: rapid.IntRange(0, maxMembers-1).Draw(t, "a"), Via: rapid.IntRange(0, maxMembers-1).Draw(t, "via")}
		switch k {
		case SJoin:
			if rapid.IntRange(0, 3).Draw(t, "lossy") == 0 {
				s.Cut = rapid.SampledFrom([]int{-1, 1, 2, 3}).Draw(t, "cut")
			}
			s.Behind = rapid.IntRange(0, 3).Draw(t, "behind") == 0
			s.Missed = !s.Behind && s.Cut == 0 && rapid.IntRange(0, 3).Draw(t, "missed") == 0
		case SRemove:
			s.Rejoin = rapid.IntRange(0, 2).Draw(t, "rejoin") == 0
		case STick:
			s.N = rapid.SampledFrom([]int{1, 3, 12, 25}).Draw(t, "n")
		case SLinkTape:
			s.B = rapid.IntRange(0, maxMembers-1).Draw(t, "b")
			s.Tape = rapid.SliceOfN(rapid.SampledFrom([]int{sim.LinkDeliver, sim.LinkDeliver, sim.LinkDropError, sim.LinkDuplicate, sim.LinkDelay}), 1, 5).Draw(t, "tape")
		}
		return s
	})
	return Case{Steps: rapid.SliceOfN(step, 3, pbt.Pick(16, 30)).Draw(t, "steps")}
}

func memberID(i int) uint64 { return uint64(501 + i) }

// loopbackIP gives every worker process its own loopback address, so that a port released by a
// restarting member cannot be picked up by another shard's process (all of 127/8 is local on Linux).
func loopbackIP() string {
	shard, _ := strconv.Atoi(os.Getenv("VERIF_SHARD"))
	return fmt.Sprintf("127.%d.%d.1", 1+shard%200, 1+os.Getpid()%250)
}

// lossyNM serves AddNode through the real server but can break the reply stream.
type lossyNM struct {
	pb.NodesManagerServer
	mu       sync.Mutex
	cut      int            // break the next AddNode reply after this many nodes (0 = none; <0 = before the member does anything)
	proposed map[uint64]int // joiner id -> how often the real AddNode (which proposes the change) ran
}

type cutStream struct {
	pb.NodesManager_AddNodeServer
	left int
}

var errCut = errors.New("sim: connection lost")

func (c *cutStream) Send(n *pb.Node) error {
	if c.left <= 0 {
		return errCut
	}
	c.left--
	return c.NodesManager_AddNodeServer.Send(n)
}

func (l *lossyNM) AddNode(req *pb.Node, s pb.NodesManager_AddNodeServer) error {
	l.mu.Lock()
	cut := l.cut
	l.cut = 0
	if cut >= 0 {
		if l.proposed == nil {
			l.proposed = map[uint64]int{}
		}
		l.proposed[req.GetId()]++
	}
	l.mu.Unlock()
	if cut < 0 {
		return errCut // the connection breaks before the request reaches the member's logic
	}
	if cut > 0 {
		if err := l.NodesManagerServer.AddNode(req, &cutStream{s, cut - 1}); err != nil {
			return err
		}
		return errCut // the stream breaks even if fewer nodes than the cut were sent
	}
	return l.NodesManagerServer.AddNode(req, s)
}

type member struct {
	i       int
	id      uint64
	db      *badger.DB
	addr    string
	in      bool // has (ever) started
	up      bool
	joined  bool // its join was acknowledged
	removed bool
	inc     int

	conn               *cluster.Conn
	tr                 *raft.RaftTransport
	zero               *raft.RaftGroup
	mon                *sim.MonWAL
	nm                 *raft.NodesManager
	lossy              *lossyNM
	srv                *grpc.Server
	lis                net.Listener
	hadSnapshotRestart bool
}

type world struct {
	net *sim.Net
	ms  []*member
	o   *pbt.Obs
}

func (w *world) start(m *member, first bool) error {
	var err error
	m.inc++
	if m.lis == nil {
		m.lis, err = net.Listen("tcp", loopbackIP()+":0")
		if err != nil {
			return err
		}
		m.addr = m.lis.Addr().String()
	} else {
		// the port was released a moment ago; an outgoing connection of this process may hold it as its source port
		for try := 0; try < 100; try++ {
			if m.lis, err = net.Listen("tcp", m.addr); err == nil {
				break
			}
			time.Sleep(20 * time.Millisecond)
		}
		if err != nil {
			return errListen
		}
	}
	m.conn, err = cluster.NewConn(m.id, m.addr, "")
	if err != nil {
		return err
	}
	m.tr = raft.NewTransport(m.id, m.addr, m.conn)
	for _, p := range w.ms {
		if p.id != m.id {
			m.tr.VerifSetPeerClient(p.id, w.net.Client(m.id, p.id))
		}
	}
	var peers []uint64
	if first {
		peers = []uint64{m.id} // as server.go does for a node started without -join
	}
	// the store wrapper lets a killed incarnation be cut off from its store at once, as a dead process would be
	m.mon = sim.NewMonWAL(wal.NewBadgerWAL(m.db, uuid.Nil))
	m.zero, err = raft.NewRaftGroup(uuid.Nil, peers, m.mon, m.tr)
	if err != nil {
		return err
	}
	if _, err := raft.NewSharedGroup(m.zero); err != nil {
		return err
	}
	if err := m.zero.Start(); err != nil {
		return err
	}
	m.nm = raft.NewNodesManager(m.conn, m.zero)
	m.lossy = &lossyNM{NodesManagerServer: services.NewNodesManagerServer(m.nm)}
	m.srv = grpc.NewServer()
	pb.RegisterNodesManagerServer(m.srv, m.lossy)
	go m.srv.Serve(m.lis)
	w.net.SetTarget(m.id, m.tr)
	m.in, m.up = true, true
	return nil
}

func (w *world) kill(m *member) {
	if !m.up {
		return
	}
	m.up = false
	w.net.SetTarget(m.id, nil)
	m.srv.Stop()
	m.mon.Kill()
	m.zero.VerifKill()
	m.conn.Close()
}

func (w *world) tickAll(n int) {
	for _, m := range w.ms {
		if m.up {
			m.zero.VerifTick(n)
		}
	}
}

var errListen = errors.New("sim: the member's port cannot be bound again")

var errStuck = errors.New("sim: call did not return within the bound")

// whileTicking runs a blocking call while the harness keeps delivering logical ticks.
func (w *world) whileTicking(fn func() error) error {
	done := make(chan error, 1)
	go func() { done <- fn() }()
	for r := 0; r < 3000; r++ {
		select {
		case err := <-done:
			return err
		default:
		}
		w.tickAll(1)
		time.Sleep(100 * time.Microsecond)
	}
	return errStuck
}

func (w *world) electLeader(rounds int) bool {
	for r := 0; r < rounds; r++ {
		for _, m := range w.ms {
			if m.up && !m.removed && m.zero.VerifStatus().RaftState == etcdRaft.StateLeader {
				return true
			}
		}
		w.tickAll(1)
		time.Sleep(100 * time.Microsecond)
	}
	return false
}

func nodesString(m map[uint64]string) string {
	var ks []uint64
	for k := range m {
		ks = append(ks, k)
	}
	sort.Slice(ks, func(i, j int) bool { return ks[i] < ks[j] })
	var p []string
	for _, k := range ks {
		p = append(p, fmt.Sprintf("%d@%q", k, m[k]))
	}
	return "{" + strings.Join(p, " ") + "}"
}

var trapOnce sync.Once

func check(c Case, o *pbt.Obs) *pbt.Failure {
	trapOnce.Do(sim.InstallFatalTrap)
	sim.TakeUnexpectedFatal()
	w := &world{net: sim.NewNet(), o: o}
	for i := 0; i < maxMembers; i++ {
		w.ms = append(w.ms, &member{i: i, id: memberID(i), db: hutil.MemDB()})
	}
	defer func() {
		for _, m := range w.ms {
			if m.up {
				m.srv.Stop()
				m.zero.Stop()
				m.conn.Close()
			}
		}
		w.net.Wait()
		time.Sleep(200 * time.Microsecond)
		for _, m := range w.ms {
			m.db.Close()
		}
	}()
	// the bootstrap member
	if err := w.start(w.ms[0], true); err != nil {
		panic(err)
	}
	w.ms[0].joined = true
	w.ms[0].zero.VerifCampaign()
	if !w.electLeader(300) {
		o.Inconclusive("bootstrap-member-did-not-elect-itself")
		return nil
	}
	// model: id -> announced address for acknowledged joins that were not removed
	model := map[uint64]string{w.ms[0].id: w.ms[0].addr}
	unknown := map[uint64]bool{} // ids whose last acknowledged change did not settle while the known finding is open
	joinsViaFollower, restartsAfterJoin, lossyHandshakes, restartAfterCompaction := 0, 0, 0, 0
	inMembers := func() []*member {
		var l []*member
		for _, m := range w.ms {
			if m.up && m.joined && !m.removed {
				l = append(l, m)
			}
		}
		return l
	}
	// applied reports whether the membership change has been applied by raft on every live in-member
	// (judged on raft's own configuration, not on the address book, which is what the oracle checks later)
	tapesActive := false // a link decision tape was installed (tapes stay until the final heal)
	// calm describes the cluster right before a membership change is requested through via: a leader exists, via knows
	// it, the leader has no unapplied membership change and no link fault is active - none of the ways in which raft
	// drops a proposed membership change (known finding C20:ack-before-commit) applies
	type calmState struct {
		ok   bool
		term uint64
	}
	calm := func(via *member) calmState {
		if tapesActive {
			return calmState{}
		}
		var leader *member
		for _, x := range w.ms {
			if x.up && x.joined && !x.removed && x.zero.VerifStatus().RaftState == etcdRaft.StateLeader {
				if leader != nil {
					return calmState{}
				}
				leader = x
			}
		}
		if leader == nil {
			return calmState{}
		}
		lst := leader.zero.VerifStatus()
		vst := via.zero.VerifStatus()
		if vst.Lead != leader.id || vst.Term != lst.Term || leader.mon.ConfPending(lst.Applied) || lst.Applied < lst.Commit {
			return calmState{}
		}
		// every member of the leader's configuration is a live, reachable process (a join that was given up on can still
		// have landed and left a dead member in the configuration: no quorum, nothing commits)
		for _, id := range leader.mon.MembersAt(lst.Applied) {
			live := false
			for _, x := range w.ms {
				if x.id == id && x.up {
					live = true
				}
			}
			if !live {
				return calmState{}
			}
		}
		return calmState{true, lst.Term}
	}
	stillCalm := func(c calmState) bool {
		if !c.ok || tapesActive {
			return false
		}
		for _, x := range w.ms {
			if x.up && x.zero.VerifStatus().Term != c.term {
				return false
			}
		}
		return true
	}
	var lagging *member // a joiner whose raft links are still cut: it cannot have applied anything
	applied := func(id uint64, present bool) bool {
		for _, x := range inMembers() {
			if x.id == id && !present {
				continue // the removed node's own view does not matter
			}
			if x == lagging {
				continue
			}
			nodes := x.zero.VerifConfNodes()
			if nodes == nil {
				// no membership change applied by this incarnation yet: the member set its store gives at the applied index
				nodes = x.mon.MembersAt(x.zero.VerifStatus().Applied)
			}
			in := false
			for _, n := range nodes {
				if n == id {
					in = true
				}
			}
			if in != present {
				return false
			}
		}
		return true
	}
	// settleChange: known finding C20:ack-before-commit - an acknowledged change may never be committed when it
	// overlaps another one. While it is open, changes are serialised: wait (bounded logical time) until the change
	// is applied everywhere; a change that never lands is treated as not acknowledged.
	settleChange := func(id uint64, present bool) bool {
		if !pbt.Open("C20:ack-before-commit") {
			return true
		}
		pbt.CountExcluded("TestMembershipConverges", "C20:ack-before-commit")
		for r := 0; r < 600; r++ {
			if applied(id, present) {
				return true
			}
			w.tickAll(1)
			time.Sleep(100 * time.Microsecond)
		}
		return false
	}
	for si, s := range c.Steps {
		m := w.ms[s.A%maxMembers]
		ins := inMembers()
		switch s.K {
		case SJoin:
			if m.in || len(ins) == 0 {
				continue
			}
			via := ins[s.Via%len(ins)]
			if err := w.start(m, false); err == errListen {
				o.Inconclusive("port-of-restarting-member-taken")
				return nil
			} else if err != nil {
				panic(err)
			}
			if s.Cut != 0 {
				via.lossy.mu.Lock()
				via.lossy.cut = s.Cut
				via.lossy.mu.Unlock()
				lossyHandshakes++
			}
			if via.zero.VerifStatus().RaftState != etcdRaft.StateLeader {
				joinsViaFollower++
			}
			if s.Behind {
				for _, x := range w.ms {
					if x != m {
						w.net.SetDown(x.id, m.id, true)
					}
				}
				lagging = m
			}
			var absent *member // the member that misses this join
			if s.Missed && !tapesActive && len(ins) >= 3 {
				for k := 0; k < len(ins) && absent == nil; k++ {
					if cand := ins[(s.Via+1+k)%len(ins)]; cand != via && cand.zero.VerifStatus().RaftState != etcdRaft.StateLeader {
						absent = cand
					}
				}
				if absent != nil {
					for _, x := range w.ms {
						if x != absent {
							w.net.SetDown(x.id, absent.id, true)
						}
					}
					lagging = absent
				}
			}
			// the joiner asks `via`; with a lossy handshake it retries once through the same member, as an operator would
			// (the RPC blocks on the member while it knows no leader: logical time must keep flowing meanwhile)
			before := calm(via)
			ctx, cancel := context.WithTimeout(context.Background(), 2*time.Second)
			err := w.whileTicking(func() error {
				e := m.nm.Join(ctx, []string{via.addr})
				if e != nil && s.Cut != 0 {
					e = m.nm.Join(ctx, []string{via.addr})
				}
				return e
			})
			cancel()
			if err == nil {
				via.lossy.mu.Lock()
				n := via.lossy.proposed[m.id]
				via.lossy.mu.Unlock()
				if n == 0 {
					return pbt.Failf("C20:join-acknowledged-without-proposal", "step %d: Join of member %d through member %d returned success although the connection broke before the member did anything and no membership change was ever proposed", si, m.i, via.i)
				}
			}
			if err == nil {
				m.joined = true
				if !settleChange(m.id, true) {
					if stillCalm(before) && s.Cut == 0 {
						return pbt.Failf("C20:acknowledged-change-never-happened", "step %d: the join of member %d through member %d was acknowledged in a calm cluster (stable leader known to the member asked, no unapplied membership change, no link faults) and is still not applied after 600 ticks; history: %s", si, m.i, via.i, c.String())
					}
					unknown[m.id] = true
					o.Label("acknowledged-change-did-not-settle")
				}
			}
			if s.Behind {
				if err == nil && !unknown[m.id] {
					// the members compact their logs past the join entry, then the joiner is reachable again
					for _, x := range inMembers() {
						if x != m {
							x.zero.VerifSnapshotNow()
						}
					}
				}
				for _, x := range w.ms {
					if x != m {
						w.net.SetDown(x.id, m.id, false)
					}
				}
				lagging = nil
				if err == nil {
					for r := 0; r < 600 && !applied(m.id, true); r++ {
						w.tickAll(1)
						time.Sleep(100 * time.Microsecond)
					}
					if sn, e := wal.NewBadgerWAL(m.db, uuid.Nil).Snapshot(); e == nil && !etcdRaft.IsEmptySnap(sn) {
						o.Label("joiner-caught-up-through-a-snapshot")
					}
				}
			}
			if absent != nil {
				if err == nil && !unknown[m.id] {
					// the others compact their logs past the join; the absentee is reachable again and catches up through a snapshot
					for _, x := range inMembers() {
						if x != absent {
							x.zero.VerifSnapshotNow()
						}
					}
				}
				for _, x := range w.ms {
					if x != absent {
						w.net.SetDown(x.id, absent.id, false)
					}
				}
				lagging = nil
				if err == nil && !unknown[m.id] {
					for r := 0; r < 900 && !applied(m.id, true); r++ {
						w.tickAll(1)
						time.Sleep(100 * time.Microsecond)
					}
					// an ordinary entry (a proposal for a consumer nobody runs), applied by the absentee too
					before := absent.zero.VerifStatus().Applied
					noop, _ := proto.Marshal(&pb.SharedGroupProposal{ProxyName: "nobody"})
					_ = w.whileTicking(func() error {
						ctx, cancel := context.WithTimeout(context.Background(), 500*time.Millisecond)
						defer cancel()
						return via.zero.Propose(ctx, noop)
					})
					for r := 0; r < 900 && absent.zero.VerifStatus().Applied <= before; r++ {
						w.tickAll(1)
						time.Sleep(100 * time.Microsecond)
					}
					if absent.zero.VerifStatus().Applied > before && applied(m.id, true) {
						// it compacts its own log and restarts
						absent.zero.VerifSnapshotNow()
						w.kill(absent)
						time.Sleep(200 * time.Microsecond)
						if e := w.start(absent, false); e == errListen {
							o.Inconclusive("port-of-restarting-member-taken")
							return nil
						} else if e != nil {
							return pbt.Failf("C20:restart-fails", "step %d: member %d does not come up again: %v", si, absent.i, e)
						}
						absent.hadSnapshotRestart = true
						o.Label("member-that-missed-a-join-compacted-its-own-log-and-restarted")
					}
				}
			}
			if err == nil {
				model[m.id] = m.addr
				o.Label("join-acknowledged")
			} else {
				o.Label("join-failed")
				// a failed join leaves the process running but outside the cluster; take it down to keep the model simple
				// (it keeps its identity, address and store: a later join step retries from the same node)
				w.kill(m)
				m.in = false
			}
		case SRemove:
			if !m.joined || m.removed || len(ins) < 2 || m.i == 0 {
				continue
			}
			var via *member
			for k := 0; k < len(ins); k++ {
				if cand := ins[(s.Via+k)%len(ins)]; cand != m {
					via = cand
					break
				}
			}
			if via == nil {
				continue
			}
			// the lagging member of a remove-then-rejoin: an in-member that is neither the removed node, nor the member
			// asked, nor the leader
			var lagger *member
			if s.Rejoin {
				for _, x := range ins {
					if x != m && x != via && x.zero.VerifStatus().RaftState != etcdRaft.StateLeader {
						lagger = x
						break
					}
				}
			}
			if lagger != nil {
				for _, x := range w.ms {
					if x != lagger {
						w.net.SetDropApp(x.id, lagger.id, true)
					}
				}
				lagging = lagger
			}
			before := calm(via)
			err := w.whileTicking(func() error { return via.nm.RemoveNode(m.id) })
			if err == nil {
				m.removed = true
				if !settleChange(m.id, false) {
					if stillCalm(before) && lagger == nil {
						return pbt.Failf("C20:acknowledged-change-never-happened", "step %d: the removal of member %d through member %d was acknowledged in a calm cluster (stable leader known to the member asked, no unapplied membership change, no link faults) and is still not applied after 600 ticks; history: %s", si, m.i, via.i, c.String())
					}
					unknown[m.id] = true
					o.Label("acknowledged-change-did-not-settle")
				}
				delete(model, m.id)
				o.Label("removal-acknowledged")
			} else {
				// not acknowledged is not "did not happen": a request still blocked in the member asked (it knows no leader)
				// can be proposed once the harness has given up on it
				unknown[m.id] = true
				o.Label("removal-not-acknowledged")
			}
			if lagger != nil {
				rejoined := false
				if err == nil && !unknown[m.id] && m.up && lagger.conn.Nodes()[m.id] == m.addr {
					// the removed node restarts over its old store and announces itself again through the lagging member
					w.kill(m)
					time.Sleep(200 * time.Microsecond)
					if e := w.start(m, false); e == errListen {
						o.Inconclusive("port-of-restarting-member-taken")
						return nil
					} else if e != nil {
						return pbt.Failf("C20:restart-fails", "step %d: removed member %d does not come up again: %v", si, m.i, e)
					}
					viaCalm := calm(lagger)
					ctx, cancel := context.WithTimeout(context.Background(), 2*time.Second)
					e := w.whileTicking(func() error { return m.nm.Join(ctx, []string{lagger.addr}) })
					cancel()
					// the loss ends
					for _, x := range w.ms {
						w.net.SetDropApp(x.id, lagger.id, false)
					}
					lagging = nil
					if e == nil {
						rejoined = true
						m.removed = false
						o.Label("rejoin-through-lagging-member-acknowledged")
						if !settleChange(m.id, true) {
							if stillCalm(viaCalm) {
								return pbt.Failf("C20:acknowledged-change-never-happened", "step %d: member %d, removed while member %d missed the log replication, restarted and announced itself again (same address) through that lagging member; the join was acknowledged in a calm cluster and is still not applied anywhere 600 ticks after the loss ended; member %d lists %s; history: %s", si, m.i, lagger.i, lagger.i, nodesString(lagger.conn.Nodes()), c.String())
							}
							unknown[m.id] = true
							o.Label("acknowledged-change-did-not-settle")
						}
						model[m.id] = m.addr
					}
				}
				for _, x := range w.ms {
					w.net.SetDropApp(x.id, lagger.id, false)
				}
				lagging = nil
				if !rejoined {
					// let the lagging member catch up before the history goes on
					for r := 0; r < 600 && err == nil && !unknown[m.id] && !applied(m.id, false); r++ {
						w.tickAll(1)
						time.Sleep(100 * time.Microsecond)
					}
				}
			}
		case SRestart:
			if !m.joined || m.removed || !m.up {
				continue
			}
			snap, _ := wal.NewBadgerWAL(m.db, uuid.Nil).Snapshot()
			w.kill(m)
			time.Sleep(200 * time.Microsecond)
			if err := w.start(m, false); err == errListen {
				o.Inconclusive("port-of-restarting-member-taken")
				return nil
			} else if err != nil {
				return pbt.Failf("C20:restart-fails", "step %d: member %d does not come up again: %v", si, m.i, err)
			}
			if len(model) > 1 {
				restartsAfterJoin++
			}
			if !etcdRaft.IsEmptySnap(snap) {
				restartAfterCompaction++
				m.hadSnapshotRestart = true
				o.Label("restart-after-compaction")
			}
			o.Label("restart")
		case SSnapshot:
			// (known finding C20:addresses-not-in-snapshot: members whose log starts at a snapshot are judged by a narrower
			// predicate at the end, see there)
			if m.up && m.joined && !m.removed {
				m.zero.VerifSnapshotNow()
				o.Label("snapshot-now")
			}
		case STick:
			w.tickAll(s.N)
		case SLinkTape:
			b := w.ms[s.B%maxMembers]
			if b != m {
				w.net.SetLink(m.id, b.id, &sim.Link{Tape: s.Tape})
				tapesActive = true
			}
		}
		time.Sleep(300 * time.Microsecond)
		w.tickAll(1)
		if f := sim.TakeUnexpectedFatal(); f != "" {
			return pbt.Failf("C20:fatal-in-zero-group", "step %d %s: log.Fatal in the zero group's ready loop: %.500s", si, sNames[s.K], f)
		}
		for _, x := range w.ms {
			if x.mon != nil {
				for _, v := range x.mon.TakeViolations() {
					return pbt.Failf("C20:membership-store-invariant", "step %d %s, member %d: %s", si, sNames[s.K], x.i, v)
				}
			}
		}
	}
	// quiescence: heal, keep ticking until every in-member agrees with the model (bounded)
	w.net.HealAll()
	deadline := time.Now().Add(4 * time.Second)
	var diff string
	for {
		diff = ""
		for _, m := range inMembers() {
			got := m.conn.Nodes()
			if unknown[m.id] {
				continue
			}
			// known finding C20:addresses-not-in-snapshot: the address book is rebuilt from membership entries only, so a
			// member whose log starts at a snapshot may miss members (or their addresses) whose entries were compacted
			// away, and may keep listing a node whose removal it never saw as a log entry. While it is open such a
			// member is judged only on what its own log still tells it: a removal it applied from its log must be gone.
			startsAtSnapshot := false
			if sn, err := wal.NewBadgerWAL(m.db, uuid.Nil).Snapshot(); err == nil && !etcdRaft.IsEmptySnap(sn) {
				startsAtSnapshot = pbt.Open("C20:addresses-not-in-snapshot")
			}
			for id, addr := range model {
				if unknown[id] {
					continue
				}
				a, ok := got[id]
				if startsAtSnapshot && (!ok || a != addr) {
					pbt.CountExcluded("TestMembershipConverges", "C20:addresses-not-in-snapshot")
					continue
				}
				if !ok {
					diff = fmt.Sprintf("member %d does not list %d (acknowledged join, address %q); it lists %s", m.i, id, addr, nodesString(got))
				} else if a != addr {
					key := ""
					if id == w.ms[0].id && m.i != 0 && pbt.Open("C20:bootstrap-address-lost-on-restart") && a == "" {
						key = "C20:bootstrap-address-lost-on-restart"
					}
					if key != "" {
						pbt.CountExcluded("TestMembershipConverges", key)
						continue
					}
					diff = fmt.Sprintf("member %d lists %d at %q, the address it announced is %q", m.i, id, a, addr)
				}
			}
			for id := range got {
				if _, ok := model[id]; !ok && !unknown[id] {
					removed := false
					for _, x := range w.ms {
						if x.id == id && x.removed {
							removed = true
						}
					}
					if removed && startsAtSnapshot && !m.mon.RemovedInLog(id, m.zero.VerifStatus().Applied) {
						pbt.CountExcluded("TestMembershipConverges", "C20:addresses-not-in-snapshot")
						continue
					}
					if removed {
						diff = fmt.Sprintf("member %d still lists %d whose removal was acknowledged (and, if its log starts at a snapshot, which it applied from its own log); it lists %s", m.i, id, nodesString(got))
					}
				}
			}
		}
		if diff == "" || time.Now().After(deadline) {
			break
		}
		w.tickAll(1)
		time.Sleep(200 * time.Microsecond)
	}
	if f := sim.TakeUnexpectedFatal(); f != "" {
		return pbt.Failf("C20:fatal-in-zero-group", "log.Fatal in the zero group's ready loop: %.500s", f)
	}
	if diff != "" {
		// "eventually" is judged in bounded time: the mismatch must be stable, i.e. the cluster has a leader and is idle
		if !w.electLeader(400) {
			o.Inconclusive("no-leader-at-quiescence")
			return nil
		}
		var views []string
		for _, x := range w.ms {
			if x.up {
				st := x.zero.VerifStatus()
				views = append(views, fmt.Sprintf("member %d{joined=%v removed=%v term=%d lead=%d state=%v commit=%d applied=%d conf=%v store-members=%v lists=%s}", x.i, x.joined, x.removed, st.Term, st.Lead, st.RaftState, st.Commit, st.Applied, x.zero.VerifConfNodes(), x.mon.MembersAt(st.Applied), nodesString(x.conn.Nodes())))
			}
		}
		return pbt.Failf("C20:membership-view-differs", "after quiescence: %s; model %s; history: %s ;; %s", diff, nodesString(model), c.String(), strings.Join(views, " | "))
	}
	if len(model) >= 2 && (restartsAfterJoin > 0 || lossyHandshakes > 0) {
		o.NonTrivial()
	}
	if joinsViaFollower > 0 {
		o.Label("join-via-follower")
	}
	if lossyHandshakes > 0 {
		o.Label("lossy-handshake")
	}
	o.Labelf("members=%d", len(model))
	o.Note(c.String())
	return nil
}

func TestMembershipConverges(t *testing.T) {
	pbt.Run(t, pbt.Prop[Case]{
		ID: "C20", Name: "TestMembershipConverges",
		Rule:    "rapid-generated histories on up to 5 members, each with a real zero RaftGroup (+ shared group), NodesManager and Conn over its own Badger store; joins run the repository's NodesManager.Join against a real gRPC NodesManager service on a loopback port of the member asked (optionally breaking the reply stream after 0-2 nodes, with one retry), joins whose raft traffic is lost until the members have compacted their logs (the joiner catches up through a snapshot), joins that one other member misses (it catches up through a leader snapshot, applies an ordinary entry, compacts its own log and restarts), removals through any member (optionally while one other member misses the log replication, followed by the removed node restarting and announcing itself again through that lagging member), restarts of members (new Conn/transport/group over the same store, same address), zero-group snapshots (log compaction) through the loop hook on any member at any point, raft messages through the simulated network with per-link decision tapes, logical ticks; oracle after healing and bounded quiescence: every live member whose join was acknowledged lists every acknowledged, not removed member with the address it announced, and lists no member whose removal was acknowledged; the membership stored with every local snapshot equals the membership at its index (stored snapshot's members + membership entries up to it), durable term/commit never go back; an acknowledged change requested in a calm cluster (stable leader known to the member asked, no unapplied membership change, no link faults) is applied within 600 ticks; no log.Fatal in a zero group; non-trivial = >=2 members and (a restart after a join or a lossy handshake); distinct = distinct case JSON",
		Gen:     genCase,
		Check:   check,
		Journal: true,
	})
}
