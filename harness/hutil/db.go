// Package hutil: small harness utilities.
package hutil

import (
	"fmt"

	badger "github.com/dgraph-io/badger/v2"
)

// MemDB opens a fresh in-memory Badger (small tables so that open+close costs ~1 ms).
func MemDB() *badger.DB {
	db, err := badger.Open(badger.DefaultOptions("").WithInMemory(true).WithLogger(nil).
		WithMaxTableSize(1 << 20).WithNumMemtables(2).WithMaxCacheSize(1 << 20).WithCompactL0OnClose(false))
	if err != nil {
		panic(fmt.Sprintf("harness: cannot open in-memory badger: %v", err))
	}
	return db
}

// MemDBBig opens an in-memory Badger with the default table size, so that a single write may be as large as the
// server's store accepts (Badger limits a transaction to 15 % of the table size: 9.6 MB with the default 64 MB tables).
func MemDBBig() *badger.DB {
	db, err := badger.Open(badger.DefaultOptions("").WithInMemory(true).WithLogger(nil).WithNumMemtables(2).WithCompactL0OnClose(false))
	if err != nil {
		panic(fmt.Sprintf("harness: cannot open in-memory badger: %v", err))
	}
	return db
}
