package hutil

import "runtime"

// AllStacks is the complete dump of every goroutine (a fixed buffer truncates it in long-lived test processes that
// have abandoned goroutines, and the goroutine a check looks for may then be missing from it).
func AllStacks() string {
	for n := 8 << 20; ; n *= 2 {
		buf := make([]byte, n)
		if m := runtime.Stack(buf, true); m < n {
			return string(buf[:m])
		}
	}
}
