// Package psm generates partition-change logs and drives the stand-alone
// partition state machine (real process/snapshot/processSnapshot) next to a
// sequential map model. Used by C02, C04 and the C12 pre-filter.
package psm

import (
	"fmt"
	"strings"

	"github.com/golang/protobuf/proto"
	"github.com/marekgalovic/anndb/index"
	pb "github.com/marekgalovic/anndb/protobuf"
	"github.com/marekgalovic/anndb/storage"
	uuid "github.com/satori/go.uuid"
	"pgregory.net/rapid"
	"verifharness/gen"
	"verifharness/idxsm"
)

const (
	KInsert = iota
	KUpdate
	KDelete
	KBatchInsert
	KBatchUpdate
	KBatchDelete
)

var kindNames = []string{"insert", "update", "delete", "batchInsert", "batchUpdate", "batchDelete"}

type Item struct {
	Id    int       `json:"id"`
	Vec   []float32 `json:"vec,omitempty"`
	Meta  int       `json:"meta,omitempty"`
	Level int       `json:"level,omitempty"`
}

type Entry struct {
	Kind  int    `json:"kind"`
	Item  Item   `json:"item"`
	Items []Item `json:"items,omitempty"`
}

type Log struct {
	Metric  int     `json:"metric"`
	Dim     int     `json:"dim"`
	Entries []Entry `json:"entries"`
}

func (e Entry) String() string {
	it := func(i Item) string { return fmt.Sprintf("#%d%v/m%d/L%d", i.Id, i.Vec, i.Meta, i.Level) }
	if e.Kind < KBatchInsert {
		return kindNames[e.Kind] + "(" + it(e.Item) + ")"
	}
	var p []string
	for _, i := range e.Items {
		p = append(p, it(i))
	}
	return kindNames[e.Kind] + "[" + strings.Join(p, " ") + "]"
}

func (l Log) String() string {
	var p []string
	for _, e := range l.Entries {
		p = append(p, e.String())
	}
	return fmt.Sprintf("metric=%d dim=%d: %s", l.Metric, l.Dim, strings.Join(p, "; "))
}

func Meta(l Log) *pb.Dataset {
	return &pb.Dataset{Id: gen.ID(7777).Bytes(), Dimension: uint32(l.Dim), Space: pb.Space(l.Metric), PartitionCount: 1, ReplicationFactor: 1}
}

type GenOpts struct {
	MaxIds, MinEntries, MaxEntries, MaxDim, MaxBatch int
	Weights                                          [6]int
}

func Gen(o GenOpts) *rapid.Generator[Log] {
	return rapid.Custom(func(t *rapid.T) Log {
		l := Log{Metric: rapid.IntRange(0, 2).Draw(t, "metric"), Dim: rapid.IntRange(1, o.MaxDim).Draw(t, "dim")}
		nIds := rapid.IntRange(2, o.MaxIds).Draw(t, "nids")
		vec := gen.Vector(l.Dim, l.Metric == 2)
		var kinds []int
		for k, w := range o.Weights {
			for i := 0; i < w; i++ {
				kinds = append(kinds, k)
			}
		}
		item := rapid.Custom(func(t *rapid.T) Item {
			return Item{
				Id:    rapid.IntRange(0, nIds-1).Draw(t, "id"),
				Vec:   vec.Draw(t, "vec"),
				Meta:  rapid.IntRange(0, len(gen.MetaShapes)-2).Draw(t, "meta"), // the last shape is non-UTF8: proto3 refuses to marshal it, so it can never be in a log entry
				Level: gen.Level().Draw(t, "level"),
			}
		})
		entry := rapid.Custom(func(t *rapid.T) Entry {
			e := Entry{Kind: rapid.SampledFrom(kinds).Draw(t, "kind")}
			if e.Kind < KBatchInsert {
				e.Item = item.Draw(t, "item")
			} else if rapid.IntRange(0, 11).Draw(t, "bigbatch") == 0 {
				// now and then a batch of 16-40 items: far more items than ids, so the same id occurs several times, far apart
				e.Items = rapid.SliceOfN(item, 16, 40).Draw(t, "bigitems")
			} else {
				e.Items = rapid.SliceOfN(item, 0, o.MaxBatch).Draw(t, "items")
			}
			return e
		})
		l.Entries = rapid.SliceOfN(entry, o.MinEntries, o.MaxEntries).Draw(t, "entries")
		// now and then: an item with very many metadata keys that is later updated with very many other keys - each map
		// fits the format's 65535-entry limit, their union does not
		// (rapid's integer generators favour small values and bounds: a rare event is taken from the low bits of a wide draw)
		if rapid.Uint64().Draw(t, "manykeys")%1000 == 777 {
			if len(l.Entries) > 10 {
				l.Entries = l.Entries[:10] // such items make every step expensive: keep these logs short
			}
			id := rapid.IntRange(0, nIds-1).Draw(t, "mkid")
			at := rapid.IntRange(0, len(l.Entries)).Draw(t, "mkat")
			ins := Entry{Kind: KInsert, Item: Item{Id: id, Vec: vec.Draw(t, "mkv1"), Meta: gen.ManyKeysA}}
			upd := Entry{Kind: rapid.SampledFrom([]int{KUpdate, KBatchUpdate}).Draw(t, "mkkind"), Item: Item{Id: id, Vec: vec.Draw(t, "mkv2"), Meta: gen.ManyKeysB}}
			if upd.Kind == KBatchUpdate {
				upd.Items = []Item{upd.Item}
			}
			gap := rapid.IntRange(0, 3).Draw(t, "mkgap")
			var es []Entry
			es = append(es, l.Entries[:at]...)
			es = append(es, ins)
			k := at + gap
			if k > len(l.Entries) {
				k = len(l.Entries)
			}
			es = append(es, l.Entries[at:k]...)
			es = append(es, upd)
			es = append(es, l.Entries[k:]...)
			l.Entries = es
		}
		return l
	})
}

// HasManyKeys reports whether the log contains the update whose merged metadata exceeds the format's entry limit.
func HasManyKeys(l Log) bool {
	for _, e := range l.Entries {
		if e.Item.Meta == gen.ManyKeysB {
			return true
		}
	}
	return false
}

// NotifID is the notification id carried by entry i (unique per entry).
func NotifID(i int) uuid.UUID { return gen.ID(100000 + 2*i) }

func batchItems(items []Item, withValue bool) []*pb.BatchItem {
	out := make([]*pb.BatchItem, len(items))
	for i, it := range items {
		bi := &pb.BatchItem{Id: gen.ID(it.Id).Bytes()}
		if withValue {
			bi.Value = append([]float32(nil), it.Vec...)
			bi.Metadata = gen.Meta(it.Meta)
			bi.Level = int32(it.Level)
		}
		out[i] = bi
	}
	return out
}

// Marshal serialises entry i exactly as a proposer would.
func Marshal(e Entry, i int) []byte {
	c := &pb.PartitionChange{NotificationId: NotifID(i).Bytes()}
	switch e.Kind {
	case KInsert:
		c.Type = pb.PartitionChangeType_PartitionChangeInsertValue
		c.Id, c.Value, c.Metadata, c.Level = gen.ID(e.Item.Id).Bytes(), append([]float32(nil), e.Item.Vec...), gen.Meta(e.Item.Meta), int32(e.Item.Level)
	case KUpdate:
		c.Type = pb.PartitionChangeType_PartitionChangeUpdateValue
		c.Id, c.Value, c.Metadata = gen.ID(e.Item.Id).Bytes(), append([]float32(nil), e.Item.Vec...), gen.Meta(e.Item.Meta)
	case KDelete:
		c.Type = pb.PartitionChangeType_PartitionChangeDeleteValue
		c.Id = gen.ID(e.Item.Id).Bytes()
	case KBatchInsert:
		c.Type = pb.PartitionChangeType_PartitionChangeBatchInsertValue
		c.BatchItems = batchItems(e.Items, true)
	case KBatchUpdate:
		c.Type = pb.PartitionChangeType_PartitionChangeBatchUpdateValue
		c.BatchItems = batchItems(e.Items, true)
	case KBatchDelete:
		c.Type = pb.PartitionChangeType_PartitionChangeBatchDeleteValue
		c.BatchItems = batchItems(e.Items, false)
	}
	b, err := proto.Marshal(c)
	if err != nil {
		panic(err)
	}
	return b
}

// Outcome is the model's prediction for one entry: Single for the three
// single-item kinds, Batch (id -> error, failing ids only) otherwise.
type Outcome struct {
	Single  error
	Batch   map[uuid.UUID]error
	IsBatch bool
}

func insertModel(m idxsm.Model, it Item) error {
	id := gen.ID(it.Id)
	if _, ok := m[id]; ok {
		return index.ItemAlreadyExistsError
	}
	lvl := it.Level
	if len(m) == 0 {
		lvl = 0
	}
	m[id] = &idxsm.Item{Vec: it.Vec, Meta: gen.Meta(it.Meta), Level: lvl}
	return nil
}

func updateModel(m idxsm.Model, it Item) error {
	id := gen.ID(it.Id)
	old, ok := m[id]
	if !ok {
		return index.ItemNotFoundError
	}
	lvl := old.Level
	if len(m) == 1 {
		lvl = 0
	}
	merged := idxsm.MergeMeta(old.Meta, gen.Meta(it.Meta))
	if !gen.MetaFits(merged) {
		// what the storage format cannot represent is refused; a refused update changes nothing
		return index.MetadataTooLargeError
	}
	m[id] = &idxsm.Item{Vec: it.Vec, Meta: merged, Level: lvl}
	return nil
}

func deleteModel(m idxsm.Model, it Item) error {
	id := gen.ID(it.Id)
	if _, ok := m[id]; !ok {
		return index.ItemNotFoundError
	}
	delete(m, id)
	return nil
}

// ApplyModel applies e to the sequential map model.
func ApplyModel(m idxsm.Model, e Entry) Outcome {
	one := map[int]func(idxsm.Model, Item) error{KInsert: insertModel, KUpdate: updateModel, KDelete: deleteModel,
		KBatchInsert: insertModel, KBatchUpdate: updateModel, KBatchDelete: deleteModel}[e.Kind]
	if e.Kind < KBatchInsert {
		return Outcome{Single: one(m, e.Item)}
	}
	out := Outcome{IsBatch: true, Batch: map[uuid.UUID]error{}}
	for _, it := range e.Items {
		if err := one(m, it); err != nil {
			out.Batch[gen.ID(it.Id)] = err
		}
	}
	return out
}

// CompareOutcome checks what the state machine delivered against the model.
func CompareOutcome(got interface{}, delivered bool, want Outcome) string {
	if !delivered {
		return "no outcome delivered to the registered waiter"
	}
	if !want.IsBatch {
		if got == nil {
			if want.Single != nil {
				return fmt.Sprintf("outcome ok, model says %v", want.Single)
			}
			return ""
		}
		err, ok := got.(error)
		if !ok {
			return fmt.Sprintf("outcome of unexpected type %T", got)
		}
		if err != want.Single {
			return fmt.Sprintf("outcome %v, model says %v", err, want.Single)
		}
		return ""
	}
	m, ok := got.(map[uuid.UUID]error)
	if !ok {
		return fmt.Sprintf("batch outcome of unexpected type %T", got)
	}
	if len(m) != len(want.Batch) {
		return fmt.Sprintf("batch errors %v, model says %v", m, want.Batch)
	}
	for id, e := range want.Batch {
		if m[id] != e {
			return fmt.Sprintf("batch error for %s: %v, model says %v", gen.IDHex(id), m[id], e)
		}
	}
	return ""
}

// Contents compares the index of a state machine with the model (ids, vector bits, metadata).
func Contents(sm *storage.VerifPartitionSM, m idxsm.Model) string {
	d := sm.Index().VerifDump()
	if len(d.Vertices) != len(m) {
		return fmt.Sprintf("%d items stored, model holds %d", len(d.Vertices), len(m))
	}
	for _, v := range d.Vertices {
		it, ok := m[v.Id]
		if !ok {
			return fmt.Sprintf("stores %s which the model does not hold", gen.IDHex(v.Id))
		}
		if !gen.BitsEqual(v.Vector, it.Vec) {
			return fmt.Sprintf("%s vector %v, model %v", gen.IDHex(v.Id), v.Vector, it.Vec)
		}
		if !gen.MetaEqual(v.Metadata, it.Meta) {
			return fmt.Sprintf("%s metadata %s, model %s", gen.IDHex(v.Id), gen.MetaString(v.Metadata), gen.MetaString(it.Meta))
		}
	}
	if l := sm.Index().Len(); l != len(m) {
		return fmt.Sprintf("Len()=%d, model holds %d", l, len(m))
	}
	return ""
}
