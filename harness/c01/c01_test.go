// C01 — search returns only live items with true scores, sorted, unique, <= k, non-empty.
package c01

import (
	"testing"

	"verifharness/idxsm"
	"verifharness/pbt"
)

func TestMain(m *testing.M) { pbt.Main(m) }

func TestIndexSearchValidity(t *testing.T) {
	g := idxsm.Gen(idxsm.GenOpts{
		MaxIds: pbt.Pick(14, 40), MinSteps: 4, MaxSteps: pbt.Pick(40, 90), MaxDim: 4,
		//                 ins rem upd s/l srch get
		Weights: [6]int{8, 5, 3, 1, 6, 0},
	})
	pbt.Run(t, pbt.Prop[idxsm.History]{
		ID: "C01", Name: "TestIndexSearchValidity",
		Rule:     "rapid-generated histories of insert/remove/update/save-load/search on one index.Hnsw (M in {1,2,3,4,8,16} or defaults, ef 1..32, both selection modes, 3 metrics, ids from a small pool so re-inserts and duplicates recur, grid vectors for ties); every search result is judged by the validity predicate (live id, current metadata, true score, ascending, distinct, <=k, non-empty when the model is non-empty) and structural invariants (live entry point, true cached distances) hold after every mutation; non-trivial = a k>=1 search on a non-empty collection after >=1 removal; distinct = distinct case JSON",
		Gen:      func(t *rapidT) idxsm.History { return g.Draw(t, "history") },
		Replicas: pbt.Pick(3, 6),
		Check: func(h idxsm.History, o *pbt.Obs) *pbt.Failure {
			return idxsm.Run(h, idxsm.Oracles{Search: true, Struct: true}, o)
		},
	})
}
