// C01 — search returns only live items with true scores, sorted, unique, <= k, non-empty.
package c01

import (
	"context"
	"fmt"
	"testing"

	"github.com/marekgalovic/anndb/storage"
	"pgregory.net/rapid"
	"verifharness/gen"
	"verifharness/idxsm"
	"verifharness/pbt"
	"verifharness/psm"
)

func TestMain(m *testing.M) { pbt.Main(m) }

func TestIndexSearchValidity(t *testing.T) {
	g := idxsm.Gen(idxsm.GenOpts{
		MaxIds: pbt.Pick(14, 40), MinSteps: 4, MaxSteps: pbt.Pick(40, 90), MaxDim: 4,
		//                 ins rem upd s/l srch get
		Weights: [6]int{8, 5, 3, 1, 6, 0},
		Tall:    true,
	})
	pbt.Run(t, pbt.Prop[idxsm.History]{
		ID: "C01", Name: "TestIndexSearchValidity",
		Rule:     "rapid-generated histories of insert/remove/update/save-load/search on one index.Hnsw (M in {1,2,3,4,8,16} or defaults, ef 1..32, both selection modes, 3 metrics, ids from a small pool so re-inserts and duplicates recur, grid vectors for ties; a quarter of the histories with M in {1,2} and mostly multi-layer items; half of the removes aimed at the current entry point or its nearest top-layer neighbour); every search result is judged by the validity predicate (live id, current metadata, true score, ascending, distinct, <=k, non-empty when the model is non-empty) and structural invariants (live entry point, true cached distances) hold after every mutation; non-trivial = a k>=1 search on a non-empty collection after >=1 removal; distinct = distinct case JSON",
		Gen:      func(t *rapidT) idxsm.History { return g.Draw(t, "history") },
		Replicas: pbt.Pick(3, 6),
		Check: func(h idxsm.History, o *pbt.Obs) *pbt.Failure {
			return idxsm.Run(h, idxsm.Oracles{Search: true, Struct: true}, o)
		},
	})
}

// ---- partition level: searches between applied log entries -----------------

type PCase struct {
	Log     psm.Log     `json:"log"`
	Queries [][]float32 `json:"queries"`
	Ks      []int       `json:"ks"`
}

func TestPartitionSearchValidity(t *testing.T) {
	g := psm.Gen(psm.GenOpts{MaxIds: pbt.Pick(12, 40), MinEntries: 3, MaxEntries: pbt.Pick(40, 90), MaxDim: 4, MaxBatch: 5,
		Weights: [6]int{6, 6, 4, 3, 3, 2}})
	pbt.Run(t, pbt.Prop[PCase]{
		ID: "C01", Name: "TestPartitionSearchValidity",
		Rule: "rapid-generated logs of serialized partition changes (all six kinds; updates with nil, empty, overlapping and empty-valued metadata) applied through the repository's partition apply function (default index parameters), with a k-NN search after every entry judged by the same validity predicate against the sequential map model (live ids, current merged metadata, true scores, ascending, distinct, <=k, non-empty); non-trivial = a search after >=1 applied update or delete on a non-empty collection; distinct = distinct case JSON",
		Gen: func(t *rapidT) PCase {
			l := g.Draw(t, "log")
			q := gen.Vector(l.Dim, l.Metric == 2)
			return PCase{Log: l, Queries: rapid.SliceOfN(q, 1, 4).Draw(t, "queries"), Ks: rapid.SliceOfN(rapid.SampledFrom([]int{1, 1, 2, 3, 10, 100}), 1, 3).Draw(t, "ks")}
		},
		Replicas: 2,
		Check: func(c PCase, o *pbt.Obs) *pbt.Failure {
			sm := storage.VerifNewPartitionSM(psm.Meta(c.Log))
			m := idxsm.Model{}
			sp := idxsm.NewSpace(c.Log.Metric)
			changed, nt := false, false
			for i, e := range c.Log.Entries {
				psm.ApplyModel(m, e)
				if _, _, err := sm.Apply(psm.Marshal(e, i), psm.NotifID(i)); err != nil {
					return pbt.Failf("C01:apply-error", "entry %d %s: apply returned %v", i, e, err)
				}
				if e.Kind != psm.KInsert && e.Kind != psm.KBatchInsert {
					changed = true
				}
				q, k := c.Queries[i%len(c.Queries)], c.Ks[i%len(c.Ks)]
				res, err := sm.Index().Search(context.Background(), q, uint(k))
				if err != nil {
					return pbt.Failf("C01:search-error", "after entry %d: %v", i, err)
				}
				if f := idxsm.CheckSearch(res, m, sp, q, k, fmt.Sprintf("search after entry %d %s", i, e)); f != nil {
					return f
				}
				if changed && len(m) > 0 {
					nt = true
				}
			}
			if nt {
				o.NonTrivial()
			}
			o.Note(c.Log.String())
			return nil
		},
	})
}
