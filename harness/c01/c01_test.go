// C01 — search returns only live items with true scores, sorted, unique, <= k, non-empty.
package c01

import (
	"context"
	"fmt"
	"testing"

	"github.com/marekgalovic/anndb/storage"
	"pgregory.net/rapid"
	"verifharness/gen"
	"verifharness/idxsm"
	"verifharness/pbt"
	"verifharness/psm"
)

func TestMain(m *testing.M) { pbt.Main(m) }

func TestIndexSearchValidity(t *testing.T) {
	g := idxsm.Gen(idxsm.GenOpts{
		MaxIds: pbt.Pick(14, 40), MinSteps: 4, MaxSteps: pbt.Pick(40, 90), MaxDim: 4,
		//                 ins rem upd s/l srch get
		Weights: [6]int{8, 5, 3, 1, 6, 0},
		Tall:    true,
	})
	pbt.Run(t, pbt.Prop[idxsm.History]{
		ID: "C01", Name: "TestIndexSearchValidity",
		Rule:     "rapid-generated histories of insert/remove/update/save-load/search on one index.Hnsw (M in {1,2,3,4,8,16} or defaults, ef 1..32, both selection modes, 3 metrics, ids from a small pool so re-inserts and duplicates recur, grid vectors for ties; a quarter of the histories with M in {1,2} and mostly multi-layer items; half of the removes aimed at the current entry point or its nearest top-layer neighbour); every search result is judged by the validity predicate (live id, current metadata, true score, ascending, distinct, <=k, non-empty when the model is non-empty) and structural invariants (live entry point, true cached distances) hold after every mutation; non-trivial = a k>=1 search on a non-empty collection after >=1 removal; distinct = distinct case JSON",
		Gen:      func(t *rapidT) idxsm.History { return g.Draw(t, "history") },
		Replicas: pbt.Pick(3, 6),
		Check: func(h idxsm.History, o *pbt.Obs) *pbt.Failure {
			return idxsm.Run(h, idxsm.Oracles{Search: true, Struct: true}, o)
		},
	})
}

// ---- partition level: searches between applied log entries -----------------

type PCase struct {
	Log     psm.Log     `json:"log"`
	Queries [][]float32 `json:"queries"`
	Ks      []int       `json:"ks"`
	// Lag: windows [from, to) of entry positions during which a second replica of the partition applies nothing; at
	// the end of a window it installs the first replica's snapshot (a lagging follower catching up through a snapshot)
	Lag [][2]int `json:"lag,omitempty"`
}

func TestPartitionSearchValidity(t *testing.T) {
	g := psm.Gen(psm.GenOpts{MaxIds: pbt.Pick(12, 40), MinEntries: 3, MaxEntries: pbt.Pick(40, 90), MaxDim: 4, MaxBatch: 5,
		Weights: [6]int{6, 6, 4, 3, 3, 2}})
	pbt.Run(t, pbt.Prop[PCase]{
		ID: "C01", Name: "TestPartitionSearchValidity",
		Rule: "rapid-generated logs of serialized partition changes (all six kinds; updates with nil, empty, overlapping and empty-valued metadata) applied through the repository's partition apply function (default index parameters), with a k-NN search (through partition.search) after every entry, on the replica itself and on a second replica that lags inside generated windows and then installs the first replica's snapshot between two identical searches, judged by the same validity predicate against the sequential map model (live ids, current merged metadata, true scores, ascending, distinct, <=k, non-empty); non-trivial = a search after >=1 applied update or delete on a non-empty collection; distinct = distinct case JSON",
		Gen: func(t *rapidT) PCase {
			l := g.Draw(t, "log")
			q := gen.Vector(l.Dim, l.Metric == 2)
			c := PCase{Log: l, Queries: rapid.SliceOfN(q, 1, 4).Draw(t, "queries"), Ks: rapid.SliceOfN(rapid.SampledFrom([]int{1, 1, 2, 3, 10, 100}), 1, 3).Draw(t, "ks")}
			for pos, n := 0, len(l.Entries); pos < n && rapid.IntRange(0, 2).Draw(t, "lag") > 0; {
				from := pos + rapid.IntRange(0, n-pos-1).Draw(t, "from")
				to := from + 1 + rapid.IntRange(0, 6).Draw(t, "len")
				if to > n {
					to = n
				}
				c.Lag = append(c.Lag, [2]int{from, to})
				pos = to
			}
			return c
		},
		Replicas: 2,
		Check: func(c PCase, o *pbt.Obs) *pbt.Failure {
			sm := storage.VerifNewPartitionSM(psm.Meta(c.Log))
			// a second replica of the partition: applies the same entries except inside the lag windows, at whose end it
			// installs the first replica's snapshot; it answers the same searches from its own state
			twin := storage.VerifNewPartitionSM(psm.Meta(c.Log))
			spc := idxsm.NewSpace(c.Log.Metric)
			m, mTwin := idxsm.Model{}, idxsm.Model{}
			copyModel := func(src idxsm.Model) idxsm.Model {
				dst := idxsm.Model{}
				for id, it := range src {
					c := &idxsm.Item{Vec: append([]float32(nil), it.Vec...), Level: it.Level}
					if it.Meta != nil {
						c.Meta = map[string]string{}
						for k, v := range it.Meta {
							c.Meta[k] = v
						}
					}
					dst[id] = c
				}
				return dst
			}
			lagging := func(i int) (bool, bool) { // inside a window, last position of a window
				for _, w := range c.Lag {
					if i >= w[0] && i < w[1] {
						return true, i == w[1]-1
					}
				}
				return false, false
			}
			search := func(r *storage.VerifPartitionSM, model idxsm.Model, q []float32, k int, where string) *pbt.Failure {
				// through partition.search, the way Dataset.Search / SearchPartitions reach a partition
				res, err := r.Search(context.Background(), q, uint(k))
				if err != nil {
					return pbt.Failf("C01:search-error", "%s: %v", where, err)
				}
				return idxsm.CheckSearch(res, model, spc, q, k, where)
			}
			changed, nt := false, false
			for i, e := range c.Log.Entries {
				psm.ApplyModel(m, e)
				if _, _, err := sm.Apply(psm.Marshal(e, i), psm.NotifID(i)); err != nil {
					return pbt.Failf("C01:apply-error", "entry %d %s: apply returned %v", i, e, err)
				}
				in, last := lagging(i)
				if !in {
					psm.ApplyModel(mTwin, e)
					if _, _, err := twin.Apply(psm.Marshal(e, i), psm.NotifID(i)); err != nil {
						return pbt.Failf("C01:apply-error", "second replica, entry %d %s: apply returned %v", i, e, err)
					}
				}
				if e.Kind != psm.KInsert && e.Kind != psm.KBatchInsert {
					changed = true
				}
				q, k := c.Queries[i%len(c.Queries)], c.Ks[i%len(c.Ks)]
				if f := search(sm, m, q, k, fmt.Sprintf("search after entry %d %s", i, e)); f != nil {
					return f
				}
				if f := search(twin, mTwin, q, k, fmt.Sprintf("search on the second replica (lagging=%v) after entry %d %s", in, i, e)); f != nil {
					return f
				}
				if last {
					// the lagging replica catches up through the first replica's snapshot and is asked the same question again
					data, err := sm.Snapshot()
					if err != nil {
						return pbt.Failf("C01:snapshot-error", "after entry %d: %v", i, err)
					}
					if err := twin.Restore(data); err != nil {
						return pbt.Failf("C01:restore-error", "after entry %d: restoring the first replica's snapshot returned %v", i, err)
					}
					mTwin = copyModel(m)
					o.Label("second-replica-installed-a-snapshot-between-two-identical-searches")
					if f := search(twin, mTwin, q, k, fmt.Sprintf("the same search on the second replica right after it installed the first replica's snapshot (after entry %d)", i)); f != nil {
						return f
					}
				}
				if changed && len(m) > 0 {
					nt = true
				}
			}
			if nt {
				o.NonTrivial()
			}
			o.Note(c.Log.String())
			return nil
		},
	})
}
