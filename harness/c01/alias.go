package c01

import "pgregory.net/rapid"

type rapidT = rapid.T
