// C02 — a partition is a faithful map id -> (vector, metadata) with exact errors and size accounting.
package c02

import (
	"testing"

	"github.com/marekgalovic/anndb/storage"
	"pgregory.net/rapid"
	"verifharness/gen"
	"verifharness/idxsm"
	"verifharness/pbt"
	"verifharness/psm"
)

func TestMain(m *testing.M) { pbt.Main(m) }

func TestIndexMapModel(t *testing.T) {
	g := idxsm.Gen(idxsm.GenOpts{
		MaxIds: pbt.Pick(10, 32), MinSteps: 4, MaxSteps: pbt.Pick(50, 100), MaxDim: 4,
		//                 ins rem upd s/l srch get
		Weights: [6]int{7, 5, 4, 1, 0, 3},
	})
	pbt.Run(t, pbt.Prop[idxsm.History]{
		ID: "C02", Name: "TestIndexMapModel",
		Rule: "rapid-generated histories of Insert/Remove/update(lookup,remove,merge,re-insert)/Get/save-load on index.Hnsw over a small id pool (repeats, re-insert after remove, duplicates) vs a map model: exact error identities, Get bit-for-bit, metadata merge (new keys win), level kept, Len()==live ids, raw byte counter == sum(16+4*dim+|k|+|v|), BytesSize() within [data, data+Len*B] and 0 when empty, full contents compare every 8 steps; non-trivial = history has a rejected op (duplicate insert / absent remove / absent update) followed by a size check; distinct = distinct case JSON",
		Gen:  func(t *rapid.T) idxsm.History { return g.Draw(t, "history") },
		Check: func(h idxsm.History, o *pbt.Obs) *pbt.Failure {
			return idxsm.Run(h, idxsm.Oracles{Map: true}, o)
		},
	})
}

// ---- partition level: all six change kinds through the real apply path -----

func TestPartitionMapModel(t *testing.T) {
	g := psm.Gen(psm.GenOpts{MaxIds: pbt.Pick(10, 24), MinEntries: 3, MaxEntries: pbt.Pick(40, 100), MaxDim: 4, MaxBatch: 6,
		//               ins upd del bIns bUpd bDel
		Weights: [6]int{6, 5, 4, 3, 3, 2}})
	pbt.Run(t, pbt.Prop[psm.Log]{
		ID: "C02", Name: "TestPartitionMapModel",
		Rule: "rapid-generated logs of serialized PartitionChange entries (all six kinds, batches of 0..6 items with in-batch duplicates, updates with nil/empty/overlapping metadata) fed to the repository's own partition apply function (stand-alone state machine hook) vs the sequential map model: per-entry outcome (nil / already exists / not found; per-id error map for batches), apply never errors or panics, contents (ids, vector bits, merged metadata) and Len() equal the model after every entry, byte counter == live data; non-trivial = log has a rejected item and a later entry; label nilmeta-update-over-meta = update carrying no metadata over an item that has some; distinct = distinct case JSON",
		Gen:  func(t *rapid.T) psm.Log { return g.Draw(t, "log") },
		Check: func(l psm.Log, o *pbt.Obs) *pbt.Failure {
			if psm.HasManyKeys(l) {
				o.Label("update-whose-merged-metadata-exceeds-the-entry-limit")
			}
			sm := storage.VerifNewPartitionSM(psm.Meta(l))
			m := idxsm.Model{}
			rejectedAt := -1
			for i, e := range l.Entries {
				// classification before applying
				if e.Kind == psm.KUpdate || e.Kind == psm.KBatchUpdate {
					its := e.Items
					if e.Kind == psm.KUpdate {
						its = []psm.Item{e.Item}
					}
					for _, it := range its {
						if old, ok := m[gen.ID(it.Id)]; ok && len(old.Meta) > 0 && len(gen.Meta(it.Meta)) == 0 {
							o.Label("nilmeta-update-over-meta")
						}
					}
				}
				want := psm.ApplyModel(m, e)
				got, delivered, err := sm.Apply(psm.Marshal(e, i), psm.NotifID(i))
				if err != nil {
					return pbt.Failf("C02:apply-error", "entry %d %s: apply returned %v (fatal in the ready loop)", i, e, err)
				}
				if d := psm.CompareOutcome(got, delivered, want); d != "" {
					return pbt.Failf("C02:outcome", "entry %d %s: %s", i, e, d)
				}
				if want.Single != nil || len(want.Batch) > 0 {
					if rejectedAt < 0 {
						rejectedAt = i
					}
				}
				if d := psm.Contents(sm, m); d != "" {
					return pbt.Failf("C02:contents", "after entry %d %s: %s", i, e, d)
				}
				if raw, data := sm.Index().VerifDump().RawBytesSize, idxsm.DataBytes(m, l.Dim); raw != data {
					return pbt.Failf("C02:bytes-counter", "after entry %d %s: byte counter %d, live data %d", i, e, raw, data)
				}
			}
			if rejectedAt >= 0 && rejectedAt < len(l.Entries)-1 {
				o.NonTrivial()
			}
			o.Note(l.String())
			return nil
		},
	})
}
