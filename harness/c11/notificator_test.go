// C11, layer A: the propose-then-wait protocol on utils.Notificator as storage.partition and
// storage.DatasetManager use it - "every applied local proposal delivers its outcome to its own waiting
// caller and to no one else, whatever the relative timing of commit and caller" - as concurrent programs
// over the primitive itself, where a lost, misdirected or fatal delivery costs microseconds to provoke.
package c11

import (
	"fmt"
	"runtime"
	"sync"
	"sync/atomic"
	"testing"
	"time"

	"github.com/marekgalovic/anndb/utils"
	"pgregory.net/rapid"
	"verifharness/pbt"
)

const (
	WaitForOutcome = iota // the caller waits until its outcome arrives
	AbandonAfter          // the caller gives up (its context ended) after CallerSpin spins: deferred Remove, nobody reads the channel
	ReadThenLeave         // the caller takes the outcome if it is there after CallerSpin spins, else gives up
)

type NRound struct {
	Mode       int `json:"mode"`
	CallerSpin int `json:"caller_spin"` // busy iterations before the caller's decisive step
	ApplySpin  int `json:"apply_spin"`  // busy iterations before the apply loop notifies
	Yield      int `json:"yield"`       // 1: caller yields first, 2: applier yields first
}

type NCase struct {
	Callers [][]NRound `json:"callers"` // concurrent callers, each a sequence of proposals on ONE notificator
	Procs   int        `json:"procs"`
}

func genNCase(t *rapid.T) NCase {
	round := rapid.Custom(func(t *rapid.T) NRound {
		return NRound{Mode: rapid.SampledFrom([]int{WaitForOutcome, AbandonAfter, AbandonAfter, ReadThenLeave}).Draw(t, "mode"),
			CallerSpin: rapid.SampledFrom([]int{0, 0, 1, 2, 3, 5, 8, 13, 21, 34, 55, 89, 144, 400}).Draw(t, "cs"),
			ApplySpin:  rapid.SampledFrom([]int{0, 0, 1, 2, 3, 5, 8, 13, 21, 34, 55, 89, 144, 400}).Draw(t, "as"),
			Yield:      rapid.IntRange(0, 2).Draw(t, "yield")}
	})
	c := NCase{Procs: rapid.SampledFrom([]int{2, 4, 16}).Draw(t, "procs")}
	nc := rapid.IntRange(1, 3).Draw(t, "callers")
	for i := 0; i < nc; i++ {
		c.Callers = append(c.Callers, rapid.SliceOfN(round, 1, pbt.Pick(30, 60)).Draw(t, "rounds"))
	}
	return c
}

var spinSink uint64

func spin(n int) {
	for i := 0; i < n; i++ {
		atomic.AddUint64(&spinSink, 1)
	}
}

type outcome struct{ caller, round int }

func checkNotificator(c NCase, o *pbt.Obs) *pbt.Failure {
	old := runtime.GOMAXPROCS(c.Procs)
	defer runtime.GOMAXPROCS(old)
	n := utils.NewNotificator()
	var mu sync.Mutex
	var fail *pbt.Failure
	setFail := func(f *pbt.Failure) {
		mu.Lock()
		if fail == nil {
			fail = f
		}
		mu.Unlock()
	}
	guard := func(who string) {
		if r := recover(); r != nil {
			setFail(pbt.Failf("C11:notificator-panic", "%s panicked: %v", who, r))
		}
	}
	var wg sync.WaitGroup
	abandoned, delivered := int64(0), int64(0)
	for ci, rounds := range c.Callers {
		wg.Add(1)
		go func(ci int, rounds []NRound) {
			defer wg.Done()
			for ri, r := range rounds {
				// the protocol of proposeAndWaitForCommit: Create(1), defer Remove, propose, wait for the outcome or the context
				ch, id := n.Create(1)
				want := outcome{ci, ri}
				applied := make(chan error, 1)
				go func() {
					// the apply loop: the entry carries the notification id; Notify is non-blocking
					defer func() {
						if r := recover(); r != nil {
							setFail(pbt.Failf("C11:notificator-panic", "the apply loop's Notify panicked while the proposer of caller %d round %d was leaving: %v (the ready loop dies, and with it the node)", ci, ri, r))
							applied <- nil
						}
					}()
					if r.Yield == 2 {
						runtime.Gosched()
					}
					spin(r.ApplySpin)
					applied <- n.Notify(id, want, false)
				}()
				func() {
					defer guard(fmt.Sprintf("caller %d round %d", ci, ri))
					if r.Yield == 1 {
						runtime.Gosched()
					}
					spin(r.CallerSpin)
					switch r.Mode {
					case WaitForOutcome:
						select {
						case v := <-ch:
							if v != want {
								setFail(pbt.Failf("C11:foreign-outcome", "caller %d round %d received %v, its own outcome is %v", ci, ri, v, want))
							}
							atomic.AddInt64(&delivered, 1)
						case <-time.After(2 * time.Second):
							setFail(pbt.Failf("C11:outcome-lost", "caller %d round %d: the entry was applied (Notify ran) but the waiting caller never received its outcome", ci, ri))
						}
					case ReadThenLeave:
						select {
						case v := <-ch:
							if v != want {
								setFail(pbt.Failf("C11:foreign-outcome", "caller %d round %d received %v, its own outcome is %v", ci, ri, v, want))
							}
							atomic.AddInt64(&delivered, 1)
						default:
							atomic.AddInt64(&abandoned, 1)
						}
					default:
						atomic.AddInt64(&abandoned, 1)
					}
					if err := n.Remove(id); err != nil {
						setFail(pbt.Failf("C11:remove-error", "caller %d round %d: Remove of its own channel returned %v", ci, ri, err))
					}
				}()
				err := <-applied
				if r.Mode == WaitForOutcome && err != nil {
					setFail(pbt.Failf("C11:notify-error-for-waiting-caller", "caller %d round %d waits on a buffered channel, Notify returned %v", ci, ri, err))
				}
				if err != nil && err != utils.ErrNotificatorChannelDoesNotExist && err != utils.ErrNotificatorReceiverNotAvailable {
					setFail(pbt.Failf("C11:notify-error", "caller %d round %d: Notify returned %v", ci, ri, err))
				}
			}
		}(ci, rounds)
	}
	wg.Wait()
	if abandoned > 0 && delivered > 0 {
		o.NonTrivial()
	}
	if abandoned > 0 {
		o.Label("proposer-left-while-its-entry-was-applied")
	}
	return fail
}

func TestNotificatorProtocol(t *testing.T) {
	pbt.Run(t, pbt.Prop[NCase]{
		ID: "C11", Name: "TestNotificatorProtocol",
		Rule:    "rapid-generated concurrent programs over one utils.Notificator used the way proposeAndWaitForCommit uses it: 1-3 concurrent callers, each a sequence of proposals = Create(1), an apply-loop goroutine that calls the non-blocking Notify(id, outcome) after a generated number of busy iterations, and a caller that after its own generated delay waits for the outcome, leaves at once (its context ended) or takes the outcome only if it is already there, then Remove(id); GOMAXPROCS in {2,4,16}; oracle: no panic on either side (a panic in Notify is the death of the ready loop), a waiting caller receives exactly its own outcome, Notify never fails for a waiting caller and otherwise returns nil or one of its two documented errors, Remove of the caller's own channel succeeds; non-trivial = some callers left and some were served; distinct = distinct case JSON",
		Gen:     genNCase,
		Check:   checkNotificator,
		Journal: true,
	})
}
