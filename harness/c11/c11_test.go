// C11 — write acknowledgements are truthful and reach the right caller.
package c11

import (
	"context"
	"fmt"
	"strings"
	"sync"
	"testing"
	"time"

	"github.com/marekgalovic/anndb/index"
	amath "github.com/marekgalovic/anndb/math"
	pb "github.com/marekgalovic/anndb/protobuf"
	"github.com/marekgalovic/anndb/storage"
	uuid "github.com/satori/go.uuid"
	"pgregory.net/rapid"
	"verifharness/catalog"
	"verifharness/gen"
	"verifharness/pbt"
	"verifharness/prod"
	"verifharness/sim"
)

func TestMain(m *testing.M) { pbt.Main(m) }

const (
	KInsert = iota
	KUpdate
	KRemove
	KBatchInsert
	KBatchUpdate
	KBatchRemove
)

var kNames = []string{"insert", "update", "remove", "batchInsert", "batchUpdate", "batchRemove"}

const (
	PauseNone         = iota
	PauseUntilApplied // hold the caller between Propose and waiting until the change is visible in the index
	PauseFixed
	PauseBeyondDeadline // the caller's own (short) deadline expires while it is held: outcome or timeout are both fine for
	// this call, but the outcome must not leak to anybody else
	PauseRaceDeadline // no pause: the caller's own deadline (DeadlineUs, tens to hundreds of microseconds) expires about when
	// its entry is applied, so the caller abandons its notification channel while the apply loop delivers into it
)

type Item struct {
	Id       int  `json:"id"`       // id index inside the caller's private range
	WrongDim bool `json:"wrongdim"` // vector of the wrong dimension
}

type Op struct {
	K     int    `json:"k"`
	Items []Item `json:"items"` // one item for the single forms
	Entry int    `json:"entry"`
	Pause int    `json:"pause"`
	// DeadlineUs: the caller's deadline for PauseRaceDeadline
	DeadlineUs int `json:"deadline_us,omitempty"`
}

type Case struct {
	Nodes     int     `json:"nodes"`
	Placement [][]int `json:"placement"` // partition -> hosting nodes
	Down      []int   `json:"down"`      // nodes killed after the groups have leaders
	Left      bool    `json:"left"`      // the killed nodes have also left the cluster (peers hold neither a client nor an address for them)
	Callers   [][]Op  `json:"callers"`
	// LongWait: the first single-item write of caller 0 that lands on a reachable partition without quorum is
	// issued without a caller deadline, so the product's own 5 s proposal timeout is what ends it
	LongWait bool `json:"longwait"`
}

func (c Case) String() string {
	var b strings.Builder
	fmt.Fprintf(&b, "nodes=%d placement=%v down=%v;", c.Nodes, c.Placement, c.Down)
	for ci, ops := range c.Callers {
		fmt.Fprintf(&b, " caller%d[", ci)
		for _, o := range ops {
			fmt.Fprintf(&b, " %s%v@%d/p%d", kNames[o.K], o.Items, o.Entry, o.Pause)
		}
		b.WriteString(" ]")
	}
	return b.String()
}

func seq(n int) []int {
	s := make([]int, n)
	for i := range s {
		s[i] = i
	}
	return s
}

func genCase(t *rapid.T) Case {
	c := Case{Nodes: rapid.IntRange(1, 3).Draw(t, "nodes")}
	np := rapid.IntRange(1, 2).Draw(t, "partitions")
	for p := 0; p < np; p++ {
		perm := rapid.Permutation(seq(c.Nodes)).Draw(t, "perm")
		c.Placement = append(c.Placement, perm[:rapid.IntRange(1, c.Nodes).Draw(t, "replicas")])
	}
	if c.Nodes > 1 && rapid.IntRange(0, 2).Draw(t, "faulty") == 0 {
		c.Down = rapid.SliceOfNDistinct(rapid.IntRange(0, c.Nodes-1), 1, c.Nodes-1, rapid.ID[int]).Draw(t, "down")
		c.Left = rapid.Bool().Draw(t, "left")
		c.LongWait = rapid.IntRange(0, pbt.Pick(11, 5)).Draw(t, "longwait") == 0
	}
	item := rapid.Custom(func(t *rapid.T) Item {
		return Item{Id: rapid.IntRange(0, 3).Draw(t, "id"), WrongDim: rapid.IntRange(0, 7).Draw(t, "wd") == 0}
	})
	op := rapid.Custom(func(t *rapid.T) Op {
		o := Op{K: rapid.SampledFrom([]int{KInsert, KInsert, KInsert, KUpdate, KRemove, KBatchInsert, KBatchUpdate, KBatchRemove}).Draw(t, "k"),
			Entry: rapid.IntRange(0, c.Nodes-1).Draw(t, "entry"), Pause: rapid.SampledFrom([]int{PauseNone, PauseNone, PauseUntilApplied, PauseUntilApplied, PauseFixed, PauseBeyondDeadline, PauseRaceDeadline, PauseRaceDeadline}).Draw(t, "pause")}
		if o.Pause == PauseRaceDeadline {
			o.DeadlineUs = rapid.IntRange(20, 900).Draw(t, "deadline")
		}
		if o.K >= KBatchInsert {
			o.Items = rapid.SliceOfN(item, 1, 4).Draw(t, "items")
		} else {
			o.Items = []Item{item.Draw(t, "item")}
		}
		return o
	})
	nc := rapid.IntRange(1, 4).Draw(t, "callers")
	for i := 0; i < nc; i++ {
		c.Callers = append(c.Callers, rapid.SliceOfN(op, 1, pbt.Pick(8, 16)).Draw(t, "ops"))
	}
	return c
}

const slot, dim = 0, 2

func uid(caller, id int) uuid.UUID { return gen.ID(2 + caller*10 + id) }

var trapOnce sync.Once

type world struct {
	c     Case
	cl    *prod.Cluster
	down  map[int]bool
	pause sync.Map // item uuid -> pause mode of the proposal that carries it
}

// lookup reports the state of id on the live replicas of its owner partition. An acknowledgement
// attests the apply on the proposer's replica only, so the most advanced replica is what counts:
// the highest version found, and whether some replica no longer has the id.
func (w *world) lookup(id uuid.UUID) (found bool, ver int) {
	f, v, _ := w.lookupAll(id)
	return f, v
}

func (w *world) lookupAll(id uuid.UUID) (found bool, maxVer int, absentSomewhere bool) {
	for i := 0; i < w.c.Nodes; i++ {
		if w.down[i] {
			continue
		}
		ds := w.cl.Dataset(i, slot)
		if ds == nil {
			continue
		}
		p := ds.VerifPartitionOf(id)
		hosts := false
		for _, n := range w.c.Placement[p] {
			if n == i {
				hosts = true
			}
		}
		if !hosts {
			continue
		}
		if v, err := ds.VerifPartitionIndex(p).Get(id); err == nil {
			found = true
			if int(v[1]) > maxVer {
				maxVer = int(v[1])
			}
		} else {
			absentSomewhere = true
		}
	}
	return
}

func (w *world) entriesSaved() int {
	n := 0
	for i := range w.cl.Nodes {
		ds := w.cl.Dataset(i, slot)
		if ds == nil {
			continue
		}
		for p := 0; p < ds.VerifPartitionCount(); p++ {
			if m := w.cl.Mon(i, ds.VerifPartitionId(p)); m != nil {
				n += m.EntryWrites()
			}
		}
	}
	return n
}

func check(c Case, o *pbt.Obs) *pbt.Failure {
	trapOnce.Do(sim.InstallFatalTrap)
	sim.TakeUnexpectedFatal()
	w := &world{c: c, cl: prod.New(c.Nodes), down: map[int]bool{}}
	defer w.cl.Close()
	nodes := make([][]uint64, len(c.Placement))
	for p, ns := range c.Placement {
		for _, n := range ns {
			nodes[p] = append(nodes[p], prod.NodeID(n))
		}
	}
	w.cl.Catalog = []catalog.Op{{K: catalog.OpCreate, Slot: slot, Dim: dim, Nodes: nodes}}
	if c.Left {
		w.cl.Unwired = map[int]bool{}
		for _, d := range c.Down {
			w.cl.Unwired[d] = true
		}
	}
	for i := 0; i < c.Nodes; i++ {
		w.cl.Start(i)
	}
	if !w.cl.Elect(slot, 500) {
		o.Inconclusive("no-leader-after-start")
		return nil
	}
	for _, d := range c.Down {
		if c.Left {
			w.cl.Leave(d)
			o.Label("owner-node-left-cluster")
		} else {
			w.cl.Kill(d)
		}
		w.down[d] = true
	}
	// which partitions still have a quorum of live replicas, which have none reachable
	quorum := make([]bool, len(c.Placement))
	reachable := make([]bool, len(c.Placement))
	for p, ns := range c.Placement {
		live := 0
		for _, n := range ns {
			if !w.down[n] {
				live++
			}
		}
		quorum[p] = live > len(ns)/2
		reachable[p] = live > 0
	}
	// keep the surviving groups led (a killed leader must be replaced before writes can commit)
	w.cl.Elect(slot, 300)
	storage.VerifSetProposePause(func(pid uuid.UUID, proposal *pb.PartitionChange) {
		var id uuid.UUID
		if len(proposal.GetId()) == 16 {
			id = uuid.FromBytesOrNil(proposal.GetId())
		} else if len(proposal.GetBatchItems()) > 0 {
			id = uuid.FromBytesOrNil(proposal.GetBatchItems()[0].GetId())
		}
		mode, _ := w.pause.Load(id)
		switch mode {
		case PauseUntilApplied:
			// hold the caller until the apply loop is done with this entry (bounded)
			deadline := time.Now().Add(30 * time.Millisecond)
			for time.Now().Before(deadline) {
				time.Sleep(200 * time.Microsecond)
			}
		case PauseFixed:
			time.Sleep(500 * time.Microsecond)
		case PauseBeyondDeadline:
			time.Sleep(25 * time.Millisecond)
		}
	})
	defer storage.VerifSetProposePause(nil)
	// logical time keeps flowing while callers run
	stopTicks := make(chan struct{})
	var tickWg sync.WaitGroup
	tickWg.Add(1)
	go func() {
		defer tickWg.Done()
		for {
			select {
			case <-stopTicks:
				return
			default:
			}
			for i := 0; i < c.Nodes; i++ {
				if !w.down[i] {
					for _, g := range w.cl.Groups(i, slot) {
						g.VerifTick(1)
					}
				}
			}
			time.Sleep(300 * time.Microsecond)
		}
	}()
	var failMu sync.Mutex
	var fail *pbt.Failure
	setFail := func(f *pbt.Failure) {
		failMu.Lock()
		if fail == nil {
			fail = f
		}
		failMu.Unlock()
	}
	labels := map[string]bool{}
	var labMu sync.Mutex
	lab := func(s string) { labMu.Lock(); labels[s] = true; labMu.Unlock() }
	var wg sync.WaitGroup
	for ci, ops := range c.Callers {
		wg.Add(1)
		go func(ci int, ops []Op) {
			defer wg.Done()
			// the caller's private model: id -> version (0 = absent)
			model := map[int]int{}
			tainted := map[int]bool{} // ids of this caller with a write that was abandoned without an outcome
			ver := ci * 1000
			longWaitUsed := false
			for oi, op := range ops {
				failMu.Lock()
				stop := fail != nil
				failMu.Unlock()
				if stop {
					return
				}
				entry := op.Entry % c.Nodes
				if w.down[entry] {
					continue // a client cannot talk to a dead node
				}
				ds := w.cl.Dataset(entry, slot)
				if ds == nil {
					continue
				}
				// errors are reported per id: a batch names every id at most once
				seenIds := map[int]bool{}
				var uniq []Item
				for _, it := range op.Items {
					if !seenIds[it.Id] {
						seenIds[it.Id] = true
						uniq = append(uniq, it)
					}
				}
				op.Items = uniq
				ver++
				where := fmt.Sprintf("caller %d op %d %s%v via node %d", ci, oi, kNames[op.K], op.Items, entry)
				vec := func(it Item) []float32 {
					if it.WrongDim {
						return []float32{1, 2, 3}
					}
					return []float32{float32(ci*10 + it.Id + 1), float32(ver)}
				}
				for _, it := range op.Items {
					w.pause.Store(uid(ci, it.Id), op.Pause)
				}
				before := w.entriesSaved()
				ctx, cancel := context.WithTimeout(context.Background(), 400*time.Millisecond)
				if op.Pause == PauseBeyondDeadline {
					cancel()
					ctx, cancel = context.WithTimeout(context.Background(), 15*time.Millisecond)
					lab("caller-deadline-expires-while-paused")
				}
				if op.Pause == PauseRaceDeadline {
					cancel()
					ctx, cancel = context.WithTimeout(context.Background(), time.Duration(op.DeadlineUs)*time.Microsecond)
					lab("caller-deadline-expires-about-when-its-entry-is-applied")
				}
				if c.LongWait && ci == 0 && !longWaitUsed && op.K < KBatchInsert && !op.Items[0].WrongDim {
					if pi := ds.VerifPartitionOf(uid(ci, op.Items[0].Id)); reachable[pi] && !quorum[pi] {
						hosts := false
						for _, n := range c.Placement[pi] {
							if n == entry {
								hosts = true
							}
						}
						if hosts {
							cancel()
							ctx, cancel = context.WithCancel(context.Background())
							longWaitUsed = true
							lab("no-caller-deadline-on-partition-without-quorum")
						}
					}
				}
				var err error
				var berr map[uuid.UUID]error
				single := op.Items[0]
				switch op.K {
				case KInsert:
					err = ds.Insert(ctx, uid(ci, single.Id), amath.Vector(vec(single)), nil)
				case KUpdate:
					err = ds.Update(ctx, uid(ci, single.Id), amath.Vector(vec(single)), nil)
				case KRemove:
					err = ds.Remove(ctx, uid(ci, single.Id))
				default:
					var items []*pb.BatchItem
					for _, it := range op.Items {
						bi := &pb.BatchItem{Id: uid(ci, it.Id).Bytes()}
						if op.K != KBatchRemove {
							bi.Value = vec(it)
						}
						items = append(items, bi)
					}
					switch op.K {
					case KBatchInsert:
						berr, err = ds.BatchInsert(ctx, items)
					case KBatchUpdate:
						berr, err = ds.BatchUpdate(ctx, items)
					default:
						berr, err = ds.BatchRemove(ctx, items)
					}
				}
				cancel()
				if op.Pause == PauseUntilApplied {
					lab("apply-before-wait")
				}
				if op.Pause == PauseRaceDeadline && err == nil {
					lab("racing-deadline:outcome-arrived-first")
				}
				if op.Pause == PauseBeyondDeadline || op.Pause == PauseRaceDeadline {
					// the call may return its outcome or its own deadline error; either way re-read what happened
					time.Sleep(3 * time.Millisecond)
					read := func() string {
						sig := ""
						for _, it := range op.Items {
							if f, v, _ := w.lookupAll(uid(ci, it.Id)); f {
								model[it.Id] = v
							} else {
								model[it.Id] = 0
							}
							sig += fmt.Sprintf("%d=%d;", it.Id, model[it.Id])
						}
						for i := 0; i < c.Nodes; i++ {
							if w.down[i] {
								continue
							}
							ds := w.cl.Dataset(i, slot)
							if ds == nil {
								continue
							}
							for p := 0; p < ds.VerifPartitionCount(); p++ {
								g := ds.VerifPartitionRaft(p)
								if g == nil {
									continue
								}
								st := g.VerifStatus()
								last := st.Commit
								if m := w.cl.Mon(i, ds.VerifPartitionId(p)); m != nil {
									last = m.DurableView().LastIndex
								}
								// anything appended but not applied yet (committed or not) may still change the picture
								if st.Commit != st.Applied || last > st.Applied {
									sig += fmt.Sprintf("pending(applied %d, commit %d, last %d)@%d;", st.Applied, st.Commit, last, time.Now().UnixNano())
								}
							}
						}
						return sig
					}
					// (the abandoned entry may still be on its way: wait until two readings a millisecond apart agree and
					// no live replica has committed entries left to apply)
					for k, prev := 0, read(); k < 40; k++ {
						time.Sleep(time.Millisecond)
						cur := read()
						if cur == prev {
							break
						}
						prev = cur
					}
					if err != nil && (strings.Contains(err.Error(), "deadline") || strings.Contains(err.Error(), "canceled")) {
						// no outcome came back: the entry may still be on its way somewhere the harness cannot see (a
						// proposal a follower has not forwarded yet). What this caller does with these ids from now on is
						// not judged; the other ids and callers are.
						for _, it := range op.Items {
							tainted[it.Id] = true
						}
					}
					continue
				}
				if func() bool {
					for _, it := range op.Items {
						if tainted[it.Id] {
							return true
						}
					}
					return false
				}() {
					lab("op-on-an-id-with-an-abandoned-write-possibly-in-flight(not judged)")
					// (what this op did to its other ids is not followed either)
					for _, it := range op.Items {
						tainted[it.Id] = true
					}
					continue
				}
				// judge item by item
				allWrong := true
				for _, it := range op.Items {
					if !it.WrongDim || op.K == KRemove || op.K == KBatchRemove {
						allWrong = false
					}
				}
				if allWrong && op.K != KRemove && op.K != KBatchRemove {
					// dimension mismatch: rejected before anything is proposed
					if op.K < KBatchInsert {
						if err != storage.DimensionMissmatchErr {
							setFail(pbt.Failf("C11:dimension-mismatch-not-rejected", "%s: returned %v, expected DimensionMissmatchErr", where, err))
							return
						}
					}
					if after := w.entriesSaved(); len(c.Callers) == 1 && after != before {
						setFail(pbt.Failf("C11:dimension-mismatch-proposed", "%s: %d log entries were appended for a request that must be rejected before proposing", where, after-before))
						return
					}
					lab("dimension-mismatch")
				}
				// a batch is one call: when one of its partitions cannot answer, the whole call may fail
				batchTouchesBadPartition := false
				if op.K >= KBatchInsert {
					for _, it := range op.Items {
						pi := ds.VerifPartitionOf(uid(ci, it.Id))
						if !reachable[pi] || !quorum[pi] {
							batchTouchesBadPartition = true
						}
					}
				}
				// a batch that failed as a whole is a lost outcome only if every item's effect is visibly there
				if op.K >= KBatchInsert && err != nil && !batchTouchesBadPartition {
					time.Sleep(2 * time.Millisecond)
					allApplied, anyJudgeable := true, false
					for _, it := range op.Items {
						if it.WrongDim && op.K != KBatchRemove {
							continue
						}
						cur := model[it.Id]
						f, v, absent := w.lookupAll(uid(ci, it.Id))
						switch {
						case op.K == KBatchInsert && cur == 0:
							anyJudgeable = true
							allApplied = allApplied && f && v == ver
						case op.K == KBatchUpdate && cur != 0:
							anyJudgeable = true
							allApplied = allApplied && f && v == ver
						case op.K == KBatchRemove && cur != 0:
							anyJudgeable = true
							allApplied = allApplied && absent
						default:
							allApplied = false // an expected error leaves no trace
						}
					}
					if allApplied && anyJudgeable && (strings.Contains(err.Error(), "deadline") || strings.Contains(err.Error(), "canceled")) {
						setFail(pbt.Failf("C11:outcome-lost", "%s (pause mode %d): every item of the batch was applied on healthy partitions but the caller got %v instead of the outcome", where, op.Pause, err).Timed())
						return
					}
					batchTouchesBadPartition = true // treat as undetermined: re-read the items below
					lab("batch-timeout-undetermined")
				}
				for _, it := range op.Items {
					id := uid(ci, it.Id)
					pidx := ds.VerifPartitionOf(id)
					if batchTouchesBadPartition && err != nil && reachable[pidx] && quorum[pidx] {
						// outcome of this item is unknown to the caller: re-read its state and go on
						time.Sleep(2 * time.Millisecond)
						if f, v, _ := w.lookupAll(id); f {
							model[it.Id] = v
						} else {
							model[it.Id] = 0
						}
						lab("batch-failed-as-a-whole")
						continue
					}
					var itemErr error
					if op.K >= KBatchInsert {
						if err != nil {
							itemErr = err
						} else {
							itemErr = berr[id]
						}
					} else {
						itemErr = err
					}
					wrong := it.WrongDim && op.K != KRemove && op.K != KBatchRemove
					if wrong && op.K >= KBatchInsert && err != nil {
						continue // the whole batch call failed; its error is judged on the well-formed items
					}
					if wrong {
						if itemErr == nil || !strings.Contains(itemErr.Error(), storage.DimensionMissmatchErr.Error()) {
							setFail(pbt.Failf("C11:dimension-mismatch-not-rejected", "%s: item #%d of the wrong dimension got outcome %v", where, it.Id, itemErr))
							return
						}
						continue
					}
					// model outcome
					cur := model[it.Id]
					var want error
					next := cur
					switch op.K {
					case KInsert, KBatchInsert:
						if cur != 0 {
							want = index.ItemAlreadyExistsError
						} else {
							next = ver
						}
					case KUpdate, KBatchUpdate:
						if cur == 0 {
							want = index.ItemNotFoundError
						} else {
							next = ver
						}
					default:
						if cur == 0 {
							want = index.ItemNotFoundError
						} else {
							next = 0
						}
					}
					if !reachable[pidx] {
						lab("unreachable-owner")
						if itemErr == nil {
							setFail(pbt.Failf("C11:success-although-owner-unreachable", "%s: item #%d returned success although no replica of its partition %d (nodes %v) is reachable", where, it.Id, pidx, c.Placement[pidx]))
							return
						}
						continue
					}
					if !quorum[pidx] {
						lab("owner-without-quorum")
						if itemErr == nil {
							setFail(pbt.Failf("C11:success-without-quorum", "%s: item #%d returned success although partition %d (nodes %v, down %v) has no quorum", where, it.Id, pidx, c.Placement[pidx], c.Down))
							return
						}
						continue
					}
					// healthy owner: the outcome must be the model's, the effect must be there on success
					found, gotVer, absentSomewhere := w.lookupAll(id)
					sameErr := (itemErr == nil && want == nil) || (itemErr != nil && want != nil && strings.Contains(itemErr.Error(), want.Error()))
					if sameErr {
						if itemErr == nil {
							okEffect := (next == 0 && absentSomewhere) || (next != 0 && found && gotVer == next)
							if !okEffect {
								setFail(pbt.Failf("C11:success-without-effect", "%s: item #%d acknowledged, expected version %d in its partition, found=%v version=%d", where, it.Id, next, found, gotVer))
								return
							}
						}
						model[it.Id] = next
						continue
					}
					// a different outcome than the model's
					isTimeout := itemErr != nil && (strings.Contains(itemErr.Error(), "deadline") || strings.Contains(itemErr.Error(), "canceled"))
					if isTimeout {
						// was it applied nevertheless? give the apply loop a moment, then look
						time.Sleep(2 * time.Millisecond)
						found, gotVer, absentSomewhere = w.lookupAll(id)
						applied := (want == nil) && ((next == 0 && absentSomewhere && cur != 0) || (next != 0 && found && gotVer == next))
						if applied {
							setFail(pbt.Failf("C11:outcome-lost", "%s (pause mode %d): the proposal was applied on a healthy partition (item #%d now found=%v version=%d, model outcome %v) but the caller got %v instead of its outcome", where, op.Pause, it.Id, found, gotVer, want, itemErr).Timed())
							return
						}
						// no visible effect: the proposal may have been dropped (no leader at that moment) or, for an expected
						// not-found / already-exists outcome, applied without trace - undetermined, not judged
						model[it.Id] = cur
						lab("timeout-not-applied")
						continue
					}
					setFail(pbt.Failf("C11:wrong-outcome", "%s: item #%d got outcome %v, its own history says %v", where, it.Id, itemErr, want))
					return
				}
				// batch error map must not carry ids that were not in the batch
				for id := range berr {
					known := false
					for _, it := range op.Items {
						if uid(ci, it.Id) == id {
							known = true
						}
					}
					if !known && id != uuid.Nil {
						setFail(pbt.Failf("C11:foreign-id-in-batch-errors", "%s: error map carries id %s which was not in the batch", where, gen.IDHex(id)))
						return
					}
				}
			}
		}(ci, ops)
	}
	wg.Wait()
	// last of all: a write is in flight on a partition that cannot commit (no quorum) when the catalogue takes the
	// proposing node out of that partition's replica set (its raft group is unloaded): the write was never applied,
	// so it must not be acknowledged
	if fail == nil {
		for p := range c.Placement {
			if !reachable[p] || quorum[p] {
				continue
			}
			host := -1
			for _, n := range c.Placement[p] {
				if !w.down[n] {
					host = n
				}
			}
			ds := w.cl.Dataset(host, slot)
			if host < 0 || ds == nil {
				continue
			}
			var id uuid.UUID
			found := false
			for k := 0; k < 64 && !found; k++ {
				if id = gen.ID(5000 + 2*k); ds.VerifPartitionOf(id) == p {
					found = true
				}
			}
			if !found {
				continue
			}
			res := make(chan error, 1)
			go func() {
				ctx, cancel := context.WithTimeout(context.Background(), 300*time.Millisecond)
				defer cancel()
				res <- ds.Insert(ctx, id, amath.Vector([]float32{77, 77}), nil)
			}()
			time.Sleep(5 * time.Millisecond)
			m := catalog.Model{}
			for _, op := range w.cl.Catalog {
				catalog.ApplyModel(m, op)
			}
			unloaded := make(chan struct{})
			go func() {
				_ = w.cl.Nodes[host].R.G.Process(catalog.Marshal(catalog.Op{K: catalog.OpRemoveNode, Slot: slot, Part: p, Node: prod.NodeID(host)}, 777777, m))
				close(unloaded)
			}()
			var err error
			select {
			case err = <-res:
			case <-time.After(15 * time.Second):
				o.Inconclusive("write-during-unload-did-not-return")
				err = context.DeadlineExceeded
			}
			select {
			case <-unloaded:
			case <-time.After(15 * time.Second):
				o.Inconclusive("unload-did-not-return")
			}
			labels["write-in-flight-while-its-partition-is-unloaded"] = true
			if err == nil {
				if f, _, _ := w.lookupAll(id); !f {
					// (reported only if the case fails again when executed again: seen once in about 80 000 cases on the
					// unchanged tree under full load and never in 300 replays of that case - not understood, so not trusted)
					fail = pbt.Failf("C11:success-without-effect", "an insert proposed on node %d for partition %d (no quorum: it cannot commit) returned success when the catalogue took the node out of the partition's replica set; no replica stores the item", host, p).Timed()
				}
			}
			break
		}
	}
	close(stopTicks)
	tickWg.Wait()
	if f := sim.TakeUnexpectedFatal(); f != "" && fail == nil {
		fail = pbt.Failf("C11:fatal-in-ready-loop", "log.Fatal in a ready loop: %.500s", f)
	}
	if fail != nil {
		return fail
	}
	for l := range labels {
		o.Label(l)
	}
	if len(c.Callers) >= 2 || labels["apply-before-wait"] {
		o.NonTrivial()
	}
	proxy := false
	for _, ops := range c.Callers {
		for _, op := range ops {
			for p, ns := range c.Placement {
				hosts := false
				for _, n := range ns {
					if n == op.Entry%c.Nodes {
						hosts = true
					}
				}
				if !hosts && p >= 0 {
					proxy = true
				}
			}
		}
	}
	if proxy {
		o.Label("proxy-path-possible")
	}
	if labels["timeout-not-applied"] {
		o.Label("healthy-partition-timeout(liveness, not judged)")
	}
	o.Note(c.String())
	return nil
}

func TestAcknowledgementsAreTruthful(t *testing.T) {
	pbt.Run(t, pbt.Prop[Case]{
		ID: "C11", Name: "TestAcknowledgementsAreTruthful",
		Rule:    "rapid-generated clusters on the product path (1-3 nodes, 1-2 partitions with generated replica sets so that entry nodes may or may not host the owner, a generated set of nodes killed after election: owners unreachable or without quorum) with 1-4 concurrent callers, each issuing 1-8 single/batch insert/update/remove calls on its own ids through generated entry nodes (items of the wrong dimension mixed in), and a generated pause at the hook between Propose returning and the caller starting to wait (none / long enough for the apply to finish first / short); oracle per item: a success is visible in the owner partition with the right version, outcomes equal the caller's own sequential history (already exists / not found), wrong-dimension items are rejected with DimensionMissmatchErr and (single caller) append no log entry, unreachable owner or no quorum never yields success, a proposal that was applied on a healthy partition never ends in a timeout for its caller, batch error maps carry only ids of the batch; non-trivial = >=2 concurrent callers or a pause that lets the apply finish first; distinct = distinct case JSON",
		Gen:     genCase,
		Check:   check,
		Journal: true,
	})
}
