// Package sim is harness layer B: real raft groups (storage/raft.RaftGroup,
// real RaftTransport, real Badger log stores) on simulated nodes. Raft messages
// travel through in-memory client shims that consult a generated fault plan;
// log stores are wrapped by a monitor that records what is durable after each
// completed write and can inject a crash before/after the k-th durable write;
// logical time is driven through the ready-loop hook.
package sim

import (
	"context"
	"errors"
	"fmt"
	uuid "github.com/satori/go.uuid"
	"math"
	"os"
	"runtime"
	"sort"
	"strings"
	"sync"
	"sync/atomic"
	"time"

	etcdRaft "github.com/coreos/etcd/raft"
	"github.com/coreos/etcd/raft/raftpb"
	"github.com/golang/protobuf/proto"
	pb "github.com/marekgalovic/anndb/protobuf"
	"github.com/marekgalovic/anndb/storage/raft"
	"github.com/marekgalovic/anndb/storage/wal"
	"github.com/sirupsen/logrus"
	"google.golang.org/grpc"
)

// ---- schedule jitter (diagnosis only) ------------------------------------------

var (
	jitterOnce sync.Once
	jitterMax  int64
	jitterSeq  uint64
)

// Jitter sleeps for a pseudo-random time up to VERIF_CHAOS microseconds (unset = no effect). It is a diagnosis aid for
// schedule-dependent failures (it widens the interleavings a loaded machine produces); no registered command sets it.
func Jitter() {
	jitterOnce.Do(func() {
		if v := os.Getenv("VERIF_CHAOS"); v != "" {
			fmt.Sscanf(v, "%d", &jitterMax)
		}
	})
	if jitterMax <= 0 {
		return
	}
	x := atomic.AddUint64(&jitterSeq, 0x9E3779B97F4A7C15) ^ uint64(time.Now().UnixNano())
	x ^= x >> 29
	x *= 0xBF58476D1CE4E5B9
	x ^= x >> 32
	if x%4 != 0 { // most calls pass straight through
		return
	}
	time.Sleep(time.Duration(int64(x>>8)%jitterMax) * time.Microsecond)
}

// ---- fatal trap ---------------------------------------------------------------

var (
	// UnexpectedFatal is set when code under test called log.Fatal for a reason
	// other than an injected crash; checks read and reset it.
	UnexpectedFatal atomic.Value
	fatalMsgs       sync.Map // goroutine id -> message of the fatal entry being logged
)

func gid() string {
	buf := make([]byte, 64)
	buf = buf[:runtime.Stack(buf, false)]
	// "goroutine 123 [running]:"
	s := string(buf)
	if len(s) > 10 {
		s = s[10:]
	}
	for i := 0; i < len(s); i++ {
		if s[i] == ' ' {
			return s[:i]
		}
	}
	return s
}

type fatalHook struct{}

func (fatalHook) Levels() []logrus.Level { return []logrus.Level{logrus.FatalLevel} }
func (fatalHook) Fire(e *logrus.Entry) error {
	fatalMsgs.Store(gid(), e.Message)
	return nil
}

// InstallFatalTrap makes log.Fatal end only the calling goroutine: when the
// fatal error is an injected crash the ready-loop dies as it would with the
// process; any other Fatal is recorded as unexpected (a violation signal for the
// checks) instead of exiting the test process.
func InstallFatalTrap() {
	logrus.AddHook(fatalHook{})
	logrus.StandardLogger().ExitFunc = func(code int) {
		g := gid()
		msg := ""
		if v, ok := fatalMsgs.Load(g); ok {
			msg = v.(string)
			fatalMsgs.Delete(g)
		}
		if !strings.Contains(msg, "injected crash") {
			buf := make([]byte, 16<<10)
			buf = buf[:runtime.Stack(buf, false)]
			UnexpectedFatal.Store("log.Fatal(" + msg + ")\n" + string(buf))
		}
		runtime.Goexit()
	}
}

func TakeUnexpectedFatal() string {
	v := UnexpectedFatal.Load()
	if v == nil {
		return ""
	}
	s := v.(string)
	if s != "" {
		UnexpectedFatal.Store("")
	}
	return s
}

// ---- monitored / crash-injecting log store -------------------------------------

var ErrCrashed = errors.New("injected crash: this incarnation can no longer write")

const (
	WriteEntries   = "entries"
	WriteHardState = "hardstate"
	WriteSnapshot  = "snapshot-install"
	WriteCompact   = "local-snapshot"
)

// Durable is what a replica has made durable so far (as acknowledged by the store).
// AttestsOnlyDurable checks a message leaving a replica against what the replica's log store has made durable:
// a granted vote needs the term and vote, an accepted append needs the term and the entries. "" = fine.
func AttestsOnlyDurable(d Durable, m raftpb.Message) string {
	switch m.Type {
	case raftpb.MsgVoteResp:
		if !m.Reject && (d.Term < m.Term || (d.Term == m.Term && d.Vote != m.To)) {
			return fmt.Sprintf("grants its vote to %d in term %d but its durable hard state is term %d vote %d", m.To, m.Term, d.Term, d.Vote)
		}
	case raftpb.MsgAppResp:
		// (an acknowledgement of an earlier term that leaves after the replica has made a later term durable is not held to
		// the index: the library queued it when the entries were in its log, and a conflicting append of the later term,
		// made durable by the same write, has replaced them since - the same allowance the vote rule makes; DESIGN 11.3 (31))
		if !m.Reject && (d.Term < m.Term || (d.Term == m.Term && d.LastIndex < m.Index)) {
			return fmt.Sprintf("acknowledges entries up to %d in term %d but its durable log ends at %d (durable term %d)", m.Index, m.Term, d.LastIndex, d.Term)
		}
	}
	return ""
}

type Durable struct {
	Term, Vote, Commit uint64
	LastIndex          uint64
	SnapIndex          uint64
	Terms              map[uint64]uint64 // index -> term of durable entries (since the last snapshot)
}

// MonWAL wraps a wal.WAL.
type MonWAL struct {
	wal.WAL
	mu          sync.Mutex
	D           Durable
	DataEntries int      // normal entries with a payload handed to Save (raft's own empty / conf-change entries excluded)
	Writes      int      // completed + attempted durable writes
	Kinds       []string // kind of each write
	CrashAt     int      // 0 = never; k = the k-th durable write
	After       bool     // perform write k, then die (otherwise die before performing it)
	Crashed     bool
	OnCrash     func() // called once when the crash fires (under no lock)
	// Trace, if set, receives one line per write handed to the store and its outcome (diagnosis of schedule-dependent
	// failures: the check prints the history itself, rapid cannot reproduce them)
	Trace func(string)
	Violations  []string
	// EmptySnapshotInstalls counts received snapshots without payload (the state machine was empty at the leader)
	EmptySnapshotInstalls int
	// membership bookkeeping: the stored snapshot's member set and the membership-change entries durable after it
	baseConf map[uint64]bool
	confEnts map[uint64]raftpb.ConfChange
}

func NewMonWAL(w wal.WAL) *MonWAL {
	m := &MonWAL{WAL: w, baseConf: map[uint64]bool{}, confEnts: map[uint64]raftpb.ConfChange{}}
	m.D.Terms = map[uint64]uint64{}
	if sn, err := w.Snapshot(); err == nil {
		for _, n := range sn.Metadata.ConfState.Nodes {
			m.baseConf[n] = true
		}
	}
	if fi, err := w.FirstIndex(); err == nil {
		if li, err := w.LastIndex(); err == nil && li >= fi {
			if es, err := w.Entries(fi, li+1, math.MaxUint64); err == nil {
				m.noteConf(es)
			}
		}
	}
	// initial durable view from the store itself
	if hs, _, err := w.InitialState(); err == nil {
		m.D.Term, m.D.Vote, m.D.Commit = hs.Term, hs.Vote, hs.Commit
	}
	if li, err := w.LastIndex(); err == nil {
		m.D.LastIndex = li
	}
	if fi, err := w.FirstIndex(); err == nil {
		m.D.SnapIndex = fi - 1
		for i := fi; i <= m.D.LastIndex; i++ {
			if t, err := w.Term(i); err == nil {
				m.D.Terms[i] = t
			}
		}
	}
	return m
}

// noteConf records the membership-change entries among es (entries at or after es[0].Index are replaced).
func (m *MonWAL) noteConf(es []raftpb.Entry) {
	if len(es) == 0 {
		return
	}
	for i := range m.confEnts {
		if i >= es[0].Index {
			delete(m.confEnts, i)
		}
	}
	for _, e := range es {
		if e.Type == raftpb.EntryConfChange {
			var cc raftpb.ConfChange
			if cc.Unmarshal(e.Data) == nil {
				m.confEnts[e.Index] = cc
			}
		}
	}
}

// membersAt folds the membership changes up to index i over the stored snapshot's member set.
func (m *MonWAL) membersAt(i uint64) []uint64 {
	set := map[uint64]bool{}
	for n := range m.baseConf {
		set[n] = true
	}
	var ixs []uint64
	for ix := range m.confEnts {
		if ix <= i {
			ixs = append(ixs, ix)
		}
	}
	sort.Slice(ixs, func(a, b int) bool { return ixs[a] < ixs[b] })
	for _, ix := range ixs {
		cc := m.confEnts[ix]
		switch cc.Type {
		case raftpb.ConfChangeAddNode:
			if cc.NodeID != 0 {
				set[cc.NodeID] = true
			}
		case raftpb.ConfChangeRemoveNode:
			delete(set, cc.NodeID)
		}
	}
	var out []uint64
	for n := range set {
		out = append(out, n)
	}
	sort.Slice(out, func(a, b int) bool { return out[a] < out[b] })
	return out
}

// MembersAt: the group's member set at log index i according to the store (snapshot members + membership changes up to i).
func (m *MonWAL) MembersAt(i uint64) []uint64 {
	m.mu.Lock()
	defer m.mu.Unlock()
	return m.membersAt(i)
}

// ConfPending reports whether the durable log holds a membership change above index applied (raft refuses a new
// membership change while one is unapplied).
func (m *MonWAL) ConfPending(applied uint64) bool {
	m.mu.Lock()
	defer m.mu.Unlock()
	for ix := range m.confEnts {
		if ix > applied {
			return true
		}
	}
	return false
}

// RemovedInLog reports whether the durable log after the stored snapshot contains, at or below index upto, a removal of
// node id that no later entry (up to upto) undoes: the member applied that removal from its log.
func (m *MonWAL) RemovedInLog(id, upto uint64) bool {
	m.mu.Lock()
	defer m.mu.Unlock()
	var last uint64
	removed := false
	for ix, cc := range m.confEnts {
		if ix <= upto && cc.NodeID == id && ix >= last {
			last = ix
			removed = cc.Type == raftpb.ConfChangeRemoveNode
		}
	}
	return removed
}

func (m *MonWAL) DurableView() Durable {
	m.mu.Lock()
	defer m.mu.Unlock()
	d := m.D
	d.Terms = map[uint64]uint64{}
	for k, v := range m.D.Terms {
		d.Terms[k] = v
	}
	return d
}

func (m *MonWAL) violate(f string, a ...interface{}) {
	m.Violations = append(m.Violations, fmt.Sprintf(f, a...))
}

func (m *MonWAL) crashNow() {
	m.Crashed = true
	if m.OnCrash != nil {
		go func() { Jitter(); m.OnCrash() }()
	}
}

func (m *MonWAL) Save(hs raftpb.HardState, ents []raftpb.Entry, snap raftpb.Snapshot) error {
	m.mu.Lock()
	defer m.mu.Unlock()
	if m.Crashed {
		return ErrCrashed
	}
	for _, e := range ents {
		if e.Type == raftpb.EntryNormal && len(e.Data) > 0 {
			m.DataEntries++
		}
	}
	empty := etcdRaft.IsEmptyHardState(hs) && len(ents) == 0 && etcdRaft.IsEmptySnap(snap)
	if m.Trace != nil && !empty {
		m.Trace("save " + DescribeWrite(hs, ents, snap))
	}
	kind := WriteHardState
	if !etcdRaft.IsEmptySnap(snap) {
		kind = WriteSnapshot
		if len(snap.Data) == 0 {
			m.EmptySnapshotInstalls++
		}
	} else if len(ents) > 0 {
		kind = WriteEntries
	}
	if !empty {
		m.Writes++
		m.Kinds = append(m.Kinds, kind)
		if m.CrashAt == m.Writes && !m.After {
			m.crashNow()
			return ErrCrashed
		}
	}
	// log-store invariants (C05 c), judged against what was durable before this write
	if !etcdRaft.IsEmptyHardState(hs) {
		if hs.Term < m.D.Term {
			m.violate("hard state term goes back: durable %d, saving %d", m.D.Term, hs.Term)
		}
		if hs.Term == m.D.Term && m.D.Vote != 0 && hs.Vote != m.D.Vote {
			m.violate("vote changes within term %d: durable vote %d, saving %d", hs.Term, m.D.Vote, hs.Vote)
		}
		if hs.Commit < m.D.Commit {
			m.violate("commit index goes back: durable %d, saving %d", m.D.Commit, hs.Commit)
		}
	}
	for _, e := range ents {
		if t, ok := m.D.Terms[e.Index]; ok && e.Index <= m.D.Commit && t != e.Term {
			m.violate("entry at committed index %d (commit %d) overwritten: durable term %d, new term %d", e.Index, m.D.Commit, t, e.Term)
		}
	}
	Jitter()
	if err := m.WAL.Save(hs, ents, snap); err != nil {
		return err
	}
	Jitter()
	if !etcdRaft.IsEmptySnap(snap) {
		m.D.Terms = map[uint64]uint64{}
		m.D.SnapIndex, m.D.LastIndex = snap.Metadata.Index, snap.Metadata.Index
		m.D.Terms[snap.Metadata.Index] = snap.Metadata.Term
		m.baseConf = map[uint64]bool{}
		for _, n := range snap.Metadata.ConfState.Nodes {
			m.baseConf[n] = true
		}
		m.confEnts = map[uint64]raftpb.ConfChange{}
	}
	m.noteConf(ents)
	if len(ents) > 0 {
		for i := range m.D.Terms {
			if i >= ents[0].Index {
				delete(m.D.Terms, i)
			}
		}
		for _, e := range ents {
			m.D.Terms[e.Index] = e.Term
		}
		m.D.LastIndex = ents[len(ents)-1].Index
	}
	if !etcdRaft.IsEmptyHardState(hs) {
		m.D.Term, m.D.Vote, m.D.Commit = hs.Term, hs.Vote, hs.Commit
	}
	if !empty && m.CrashAt == m.Writes && m.After {
		m.crashNow()
		return ErrCrashed
	}
	return nil
}

func (m *MonWAL) CreateSnapshot(i uint64, cs *raftpb.ConfState, data []byte) (raftpb.Snapshot, error) {
	m.mu.Lock()
	defer m.mu.Unlock()
	if m.Crashed {
		return raftpb.Snapshot{}, ErrCrashed
	}
	m.Writes++
	m.Kinds = append(m.Kinds, WriteCompact)
	if m.Trace != nil {
		m.Trace(fmt.Sprintf("local-snapshot at %d conf=%v data=%q", i, cs, data))
	}
	if m.CrashAt == m.Writes && !m.After {
		m.crashNow()
		return raftpb.Snapshot{}, ErrCrashed
	}
	// the membership stored with a local snapshot is the membership at its index: the stored snapshot's member set
	// plus the membership changes in the log up to that index (all of them applied, the snapshot is taken at the applied index)
	var want []uint64
	if cs != nil {
		want = m.membersAt(i)
		got := append([]uint64(nil), cs.Nodes...)
		sort.Slice(got, func(a, b int) bool { return got[a] < got[b] })
		if fmt.Sprint(got) != fmt.Sprint(want) {
			m.violate("the local snapshot at index %d stores membership %v, the membership at that index is %v", i, got, want)
		}
	}
	s, err := m.WAL.CreateSnapshot(i, cs, data)
	if err != nil {
		return s, err
	}
	m.D.SnapIndex = i
	if cs != nil {
		m.baseConf = map[uint64]bool{}
		for _, n := range want {
			m.baseConf[n] = true
		}
		for ix := range m.confEnts {
			if ix <= i {
				delete(m.confEnts, ix)
			}
		}
	}
	if m.CrashAt == m.Writes && m.After {
		// the snapshot is durable; the loop survives a failed trySnapshot (it only logs), so kill it explicitly
		m.crashNow()
		return s, ErrCrashed
	}
	return s, nil
}

func (m *MonWAL) DeleteGroup() error {
	m.mu.Lock()
	defer m.mu.Unlock()
	if m.Crashed {
		return ErrCrashed
	}
	err := m.WAL.DeleteGroup()
	m.D = Durable{Terms: map[uint64]uint64{}}
	m.baseConf, m.confEnts = map[uint64]bool{}, map[uint64]raftpb.ConfChange{}
	return err
}

// DescribeWrite renders what a Ready asked the store to make durable.
func DescribeWrite(hs raftpb.HardState, ents []raftpb.Entry, snap raftpb.Snapshot) string {
	var b strings.Builder
	if !etcdRaft.IsEmptyHardState(hs) {
		fmt.Fprintf(&b, "hs{term=%d vote=%d commit=%d} ", hs.Term, hs.Vote, hs.Commit)
	}
	if !etcdRaft.IsEmptySnap(snap) {
		fmt.Fprintf(&b, "snap{index=%d term=%d nodes=%v data=%q} ", snap.Metadata.Index, snap.Metadata.Term, snap.Metadata.ConfState.Nodes, snap.Data)
	}
	b.WriteString(DescribeEntries(ents))
	return b.String()
}

func DescribeEntries(ents []raftpb.Entry) string {
	var b strings.Builder
	for _, e := range ents {
		if e.Type == raftpb.EntryNormal {
			fmt.Fprintf(&b, "[%d/t%d %q]", e.Index, e.Term, e.Data)
		} else {
			fmt.Fprintf(&b, "[%d/t%d conf]", e.Index, e.Term)
		}
	}
	return b.String()
}

// DescribeMsg renders a raft message for a history dump.
func DescribeMsg(m raftpb.Message) string {
	s := fmt.Sprintf("%s %d->%d term=%d logterm=%d index=%d commit=%d", m.Type, m.From, m.To, m.Term, m.LogTerm, m.Index, m.Commit)
	if m.Reject {
		s += fmt.Sprintf(" REJECT hint=%d", m.RejectHint)
	}
	if len(m.Entries) > 0 {
		s += " ents=" + DescribeEntries(m.Entries)
	}
	if !etcdRaft.IsEmptySnap(m.Snapshot) {
		s += fmt.Sprintf(" snap{index=%d term=%d data=%q}", m.Snapshot.Metadata.Index, m.Snapshot.Metadata.Term, m.Snapshot.Data)
	}
	return s
}

// EntryWrites counts the proposal entries (normal entries with data) handed to Save so far.
func (m *MonWAL) EntryWrites() int {
	m.mu.Lock()
	defer m.mu.Unlock()
	return m.DataEntries
}

// KindsCopy returns the kinds of the durable writes so far.
func (m *MonWAL) KindsCopy() []string {
	m.mu.Lock()
	defer m.mu.Unlock()
	return append([]string(nil), m.Kinds...)
}

// Kill makes the store refuse every further write (its process is dead).
func (m *MonWAL) Kill() {
	m.mu.Lock()
	m.Crashed = true
	m.mu.Unlock()
}

// Disarm cancels a crash plan that has not fired yet.
func (m *MonWAL) Disarm() {
	m.mu.Lock()
	m.CrashAt = 0
	m.mu.Unlock()
}

// Arm plans a crash at the k-th next durable write.
func (m *MonWAL) Arm(k int, after bool) {
	m.mu.Lock()
	m.CrashAt = m.Writes + k
	m.After = after
	m.mu.Unlock()
}

func (m *MonWAL) TakeViolations() []string {
	m.mu.Lock()
	defer m.mu.Unlock()
	v := m.Violations
	m.Violations = nil
	return v
}

// ---- network --------------------------------------------------------------------

const (
	LinkDeliver = iota
	LinkDropError
	LinkDropSilent
	LinkDuplicate
	LinkDelay
)

// Link is the fault plan of one directed link: Down overrides the tape.
type Link struct {
	Down bool
	// DropApp: log replication (MsgApp / MsgSnap) is lost silently while everything else (heartbeats, votes) arrives
	DropApp bool
	Tape    []int // cyclic decisions
	pos     int
}

// SentMsg is what the shim saw leaving a replica (on the sender's ready-loop goroutine).
type SentMsg struct {
	From, To uint64
	Msg      raftpb.Message
	Decision int
}

type Net struct {
	mu      sync.Mutex
	targets map[uint64]*raft.RaftTransport
	links   map[[2]uint64]*Link
	// OnSend is called for every message before the fault decision (sender's loop goroutine).
	OnSend func(from uint64, m raftpb.Message)
	// OnSendGroup: the same, with the raft group the message belongs to (several groups per node).
	OnSendGroup func(from uint64, group uuid.UUID, m raftpb.Message)
	// OnDecision, if set, is told what the link decided for a message (history dumps)
	OnDecision func(from, to uint64, m raftpb.Message, decision int)
	Stats       map[string]int
	wg          sync.WaitGroup
}

func NewNet() *Net {
	return &Net{targets: map[uint64]*raft.RaftTransport{}, links: map[[2]uint64]*Link{}, Stats: map[string]int{}}
}

func (n *Net) SetTarget(id uint64, t *raft.RaftTransport) {
	n.mu.Lock()
	n.targets[id] = t
	n.mu.Unlock()
}

func (n *Net) SetLink(from, to uint64, l *Link) {
	n.mu.Lock()
	n.links[[2]uint64{from, to}] = l
	n.mu.Unlock()
}

func (n *Net) SetDown(from, to uint64, down bool) {
	n.mu.Lock()
	l := n.links[[2]uint64{from, to}]
	if l == nil {
		l = &Link{}
		n.links[[2]uint64{from, to}] = l
	}
	l.Down = down
	n.mu.Unlock()
}

// SetDropApp makes the link lose log replication only.
func (n *Net) SetDropApp(from, to uint64, on bool) {
	n.mu.Lock()
	l := n.links[[2]uint64{from, to}]
	if l == nil {
		l = &Link{}
		n.links[[2]uint64{from, to}] = l
	}
	l.DropApp = on
	n.mu.Unlock()
}

func (n *Net) HealAll() {
	n.mu.Lock()
	for _, l := range n.links {
		l.DropApp = false
		l.Down = false
		l.Tape = nil
	}
	n.mu.Unlock()
}

// Wait lets delayed deliveries finish.
func (n *Net) Wait() { n.wg.Wait() }

// Client returns the shim node `from` uses to reach node `to`.
func (n *Net) Client(from, to uint64) pb.RaftTransportClient { return &shim{n: n, from: from, to: to} }

type shim struct {
	n        *Net
	from, to uint64
}

func (s *shim) Receive(ctx context.Context, in *pb.RaftMessage, _ ...grpc.CallOption) (*pb.EmptyMessage, error) {
	var m raftpb.Message
	if err := proto.Unmarshal(in.GetMessage(), &m); err != nil {
		return nil, err
	}
	n := s.n
	if n.OnSend != nil {
		n.OnSend(s.from, m)
	}
	if n.OnSendGroup != nil {
		if gid, err := uuid.FromBytes(in.GetGroupId()); err == nil {
			n.OnSendGroup(s.from, gid, m)
		}
	}
	n.mu.Lock()
	target := n.targets[s.to]
	l := n.links[[2]uint64{s.from, s.to}]
	dec := LinkDeliver
	if l != nil {
		if l.Down {
			dec = LinkDropError
		} else if l.DropApp && (m.Type == raftpb.MsgApp || m.Type == raftpb.MsgSnap) {
			dec = LinkDropSilent
		} else if len(l.Tape) > 0 {
			dec = l.Tape[l.pos%len(l.Tape)]
			l.pos++
		}
	}
	n.Stats[fmt.Sprintf("link-decision-%d", dec)]++
	n.mu.Unlock()
	if n.OnDecision != nil {
		n.OnDecision(s.from, s.to, m, dec)
	}
	// Like a gRPC call, delivery runs on the receiving side's goroutine and the
	// sender waits no longer than its call deadline (500 ms in the product; capped
	// at 3 ms here, which is one more way for a link to be slow): raft's Step can
	// block on the receiver, e.g. a forwarded proposal to a node that knows no leader.
	deliver := func() error {
		Jitter()
		if target == nil {
			return errors.New("sim: target node is down")
		}
		done := make(chan error, 1)
		n.wg.Add(1)
		go func() {
			defer n.wg.Done()
			Jitter()
			_, err := target.Receive(context.Background(), in)
			done <- err
		}()
		select {
		case err := <-done:
			return err
		case <-ctx.Done():
			return ctx.Err()
		case <-time.After(3 * time.Millisecond):
			return context.DeadlineExceeded
		}
	}
	switch dec {
	case LinkDropError:
		return nil, errors.New("sim: link down")
	case LinkDropSilent:
		return &pb.EmptyMessage{}, nil
	case LinkDuplicate:
		_ = deliver()
		if err := deliver(); err != nil {
			return nil, err
		}
		return &pb.EmptyMessage{}, nil
	case LinkDelay:
		n.wg.Add(1)
		go func() {
			defer n.wg.Done()
			time.Sleep(300 * time.Microsecond)
			_ = deliver()
		}()
		return &pb.EmptyMessage{}, nil
	}
	if err := deliver(); err != nil {
		return nil, err
	}
	return &pb.EmptyMessage{}, nil
}
