// Package pbt is the small framework every property check in /verif is written
// against. A check is a (generator, executable oracle) pair over a JSON
// serialisable case type C:
//
//   - rapid owns every random choice (Gen draws the whole case up front, so the
//     case is one shrinkable value and the JSON of the case *is* the replay tape);
//   - Check executes the case against the real code and an explicit oracle and
//     returns a *Failure (nil = property held on this case);
//   - every failing execution rewrites the replay file, so after rapid's
//     shrinking the file holds the minimal case rapid reached (or, when rapid
//     reports the test as flaky because the code under test is itself
//     non-deterministic, the last failing case);
//   - replay mode (VERIF_REPLAY=<file>) runs Check on the recorded case without
//     rapid: this is the plain regression check and the unit in which known
//     findings are stored.
//
// Counters (evaluations, labels, distinct non-trivial cases, samples) are
// written to VERIF_STATS_OUT at process exit and merged by the driver into the
// evidence file.
package pbt

import (
	"crypto/sha256"
	"encoding/binary"
	"encoding/json"
	"fmt"
	"io"
	"os"
	"path/filepath"
	"sort"
	"strconv"
	"strings"
	"sync"
	"testing"

	"github.com/sirupsen/logrus"
	"pgregory.net/rapid"
)

// Obs is handed to Check so the oracle can classify the case it executed.
type Obs struct {
	labels       []string
	nontrivial   bool
	note         string
	inconclusive string
}

// Inconclusive marks the case as neither passed nor failed (e.g. a time-dependent
// observation that did not reproduce); the driver turns any such case into exit 2.
func (o *Obs) Inconclusive(why string) {
	if o != nil {
		o.inconclusive = why
		o.labels = append(o.labels, "INCONCLUSIVE:"+why)
	}
}

// Label counts the case under a named class (measured, reported in evidence).
func (o *Obs) Label(l string) {
	if o != nil {
		o.labels = append(o.labels, l)
	}
}

// Labelf is Label with formatting.
func (o *Obs) Labelf(f string, a ...interface{}) { o.Label(fmt.Sprintf(f, a...)) }

// NonTrivial marks the case as non-trivial by the check's stated rule.
func (o *Obs) NonTrivial() {
	if o != nil {
		o.nontrivial = true
	}
}

// Note attaches a short human-readable rendering used for evidence samples.
func (o *Obs) Note(s string) {
	if o != nil {
		o.note = s
	}
}

// Failure describes one violated oracle.
type Failure struct {
	// Key is a stable, specific signature of *what* failed (call site /
	// predicate), used to match entries of known_findings.json.
	Key string
	Msg string
	// Timing: the verdict rests on a wall-clock bound (a deadline that expired, a wait that was given up). Such a
	// failure is reported only if the same case fails again when it is executed again at once (up to two more times);
	// otherwise it is counted under INCONCLUSIVE:unreproduced <key> and the case is inconclusive (DESIGN 2.7).
	Timing bool
	// History: what the check recorded while the case ran (messages, writes, applies); written next to the replay
	// tape, because a schedule-dependent failure may not fail again when the tape is replayed
	History string
}

// Timed marks the failure as resting on a wall-clock bound.
func (f *Failure) Timed() *Failure { f.Timing = true; return f }

func (f *Failure) Error() string { return f.Key + ": " + f.Msg }

// Failf builds a Failure.
func Failf(key, format string, a ...interface{}) *Failure {
	return &Failure{Key: key, Msg: fmt.Sprintf(format, a...)}
}

// Prop is one executable check of one property.
type Prop[C any] struct {
	ID    string // property id, e.g. "C19"
	Name  string // check name (= the Go test function name)
	Rule  string // how cases are generated and what makes one non-trivial
	Gen   func(t *rapid.T) C
	Check func(c C, o *Obs) *Failure
	// Journal writes every case to a journal file before executing it, so that
	// a case that kills the process (OOM, fatal error, raft Panicf in a foreign
	// goroutine) still leaves a replay tape behind.
	Journal bool
	// Replicas > 1 re-executes a case that passed, for subjects whose behaviour
	// depends on Go map iteration order (DESIGN §2.8).
	Replicas int
}

type stats struct {
	mu          sync.Mutex
	Property    string              `json:"property"`
	Checks      map[string]*chkStat `json:"checks"`
	Unreproduce int                 `json:"unreproduced"`
}

type chkStat struct {
	Rule        string            `json:"rule"`
	Evaluations int               `json:"evaluations"`
	Executions  int               `json:"executions"`
	NonTrivial  int               `json:"nontrivial"`
	Hashes      []uint64          `json:"hashes"`
	hashSet     map[uint64]bool   `json:"-"`
	Labels      map[string]int    `json:"labels"`
	Samples     []json.RawMessage `json:"samples"`
	Failures    []string          `json:"failures"`
	Excluded    map[string]int    `json:"excluded"`
}

var global = &stats{Checks: map[string]*chkStat{}}

func (s *stats) get(name, rule string) *chkStat {
	c := s.Checks[name]
	if c == nil {
		c = &chkStat{Rule: rule, hashSet: map[uint64]bool{}, Labels: map[string]int{}, Excluded: map[string]int{}}
		s.Checks[name] = c
	}
	return c
}

// CountExcluded records that a generator steered away from a known finding.
func CountExcluded(check, key string) {
	global.mu.Lock()
	defer global.mu.Unlock()
	global.get(check, "").Excluded[key]++
}

// Flush writes the counters; called from TestMain of every props package.
func Flush() {
	out := os.Getenv("VERIF_STATS_OUT")
	if out == "" {
		return
	}
	global.mu.Lock()
	defer global.mu.Unlock()
	for _, c := range global.Checks {
		c.Hashes = c.Hashes[:0]
		for h := range c.hashSet {
			c.Hashes = append(c.Hashes, h)
		}
		sort.Slice(c.Hashes, func(i, j int) bool { return c.Hashes[i] < c.Hashes[j] })
	}
	b, _ := json.Marshal(global)
	_ = os.MkdirAll(filepath.Dir(out), 0o755)
	_ = os.WriteFile(out, b, 0o644)
}

// Cleanup, if set, runs before Main exits the process.
var Cleanup func()

// Main is the TestMain body shared by all props packages.
func Main(m *testing.M) {
	if os.Getenv("VERIF_LOG") == "" {
		logrus.SetOutput(io.Discard)
	}
	// log.Fatal in the code under test (raft ready-loop on apply/save errors,
	// NewBadgerWAL) would end the process silently: make it loud and attributable.
	logrus.AddHook(fatalHook{})
	logrus.StandardLogger().ExitFunc = func(code int) {
		buf := make([]byte, 32<<10)
		n := stackInto(buf)
		fmt.Printf("VERIF-FATAL: log.Fatal in code under test (exit %d)\n%s\n", code, buf[:n])
		Flush()
		os.Exit(97)
	}
	code := m.Run()
	Flush()
	if Cleanup != nil {
		Cleanup()
	}
	os.Exit(code)
}

type fatalHook struct{}

func (fatalHook) Levels() []logrus.Level { return []logrus.Level{logrus.FatalLevel, logrus.PanicLevel} }
func (fatalHook) Fire(e *logrus.Entry) error {
	fmt.Printf("VERIF-FATAL-MSG: level=%s msg=%q fields=%v\n", e.Level, e.Message, e.Data)
	return nil
}

// Tier returns "quick" or "thorough".
func Tier() string {
	if os.Getenv("VERIF_TIER") == "thorough" {
		return "thorough"
	}
	return "quick"
}

// Thorough reports whether the thorough tier is running.
func Thorough() bool { return Tier() == "thorough" }

// Pick returns q in the quick tier and t in the thorough tier.
func Pick(q, t int) int {
	if Thorough() {
		return t
	}
	return q
}

type replayFile struct {
	Property string          `json:"property"`
	Check    string          `json:"check"`
	Key      string          `json:"key"`
	Error    string          `json:"error"`
	Seed     string          `json:"rapid_seed,omitempty"`
	Case     json.RawMessage `json:"case"`
	History  []string        `json:"history,omitempty"`
}

func hashCase(b []byte) uint64 {
	h := sha256.Sum256(b)
	return binary.BigEndian.Uint64(h[:8])
}

func replayPath(id, name string) string {
	dir := os.Getenv("VERIF_REPLAY_DIR")
	if dir == "" {
		dir = "/verif/replays"
	}
	tag := os.Getenv("VERIF_JOB")
	if tag == "" {
		tag = "adhoc"
	}
	return filepath.Join(dir, fmt.Sprintf("%s-%s-%s.json", id, name, tag))
}

func writeReplay(id, name string, raw []byte, f *Failure) string {
	p := replayPath(id, name)
	_ = os.MkdirAll(filepath.Dir(p), 0o755)
	rf := replayFile{Property: id, Check: name, Key: f.Key, Error: f.Msg, Seed: os.Getenv("VERIF_RAPID_SEED"), Case: raw}
	if f.History != "" {
		rf.History = strings.Split(f.History, "\n")
	}
	b, _ := json.MarshalIndent(rf, "", " ")
	_ = os.WriteFile(p, b, 0o644)
	return p
}

func writeJournal(id, name string, raw []byte) {
	p := strings.TrimSuffix(replayPath(id, name), ".json") + ".journal.json"
	_ = os.MkdirAll(filepath.Dir(p), 0o755)
	rf := replayFile{Property: id, Check: name, Key: "process-death", Error: "case that was executing when the worker process died", Seed: os.Getenv("VERIF_RAPID_SEED"), Case: raw}
	b, _ := json.Marshal(rf)
	_ = os.WriteFile(p, b, 0o644)
}

// execute runs Check once (plus replicas), converting panics of the code under
// test into failures so they shrink like any other violation.
func execute[C any](p Prop[C], c C, o *Obs) (f *Failure) {
	n := p.Replicas
	if n < 1 {
		n = 1
	}
	for i := 0; i < n; i++ {
		var oo *Obs
		if i == 0 {
			oo = o
		}
		f = safeCheck(p, c, oo)
		if f != nil {
			return f
		}
	}
	return nil
}

func safeCheck[C any](p Prop[C], c C, o *Obs) (f *Failure) {
	defer func() {
		if r := recover(); r != nil {
			if ff, ok := r.(*Failure); ok {
				f = ff
				return
			}
			f = Failf("panic:"+panicSite(), "panic in code under test: %v", r)
		}
	}()
	return p.Check(c, o)
}

// Run is the entry point of a check's Go test function.
func Run[C any](t *testing.T, p Prop[C]) {
	if rp := os.Getenv("VERIF_REPLAY"); rp != "" {
		replay(t, p, rp)
		return
	}
	global.mu.Lock()
	st := global.get(p.Name, p.Rule)
	global.mu.Unlock()
	maxSamples := 3
	rapid.Check(t, func(rt *rapid.T) {
		c := p.Gen(rt)
		raw, err := json.Marshal(c)
		if err != nil {
			rt.Fatalf("case not serialisable: %v", err)
		}
		o := &Obs{}
		if p.Journal {
			writeJournal(p.ID, p.Name, raw)
		}
		f := execute(p, c, o)
		if f != nil && f.Timing {
			again := false
			for k := 0; k < 2 && !again; k++ {
				if f2 := execute(p, c, &Obs{}); f2 != nil {
					again, f = true, f2
				}
			}
			if !again {
				o.labels = append(o.labels, "INCONCLUSIVE:unreproduced "+f.Key)
				o.inconclusive = "a failure that rests on a wall-clock bound did not reproduce: " + f.Error()
				f = nil
			}
		}
		global.mu.Lock()
		if o.inconclusive == "" || f != nil {
			st.Evaluations++ // an inconclusive case was generated but not judged: it is reported under its label only
		}
		for _, l := range o.labels {
			st.Labels[l]++
		}
		if o.nontrivial {
			st.NonTrivial++
			h := hashCase(raw)
			if !st.hashSet[h] {
				st.hashSet[h] = true
				if len(st.Samples) < maxSamples {
					if o.note != "" {
						nb, _ := json.Marshal(o.note)
						st.Samples = append(st.Samples, nb)
					} else if len(raw) <= 4000 {
						st.Samples = append(st.Samples, raw)
					}
				}
			}
		}
		if o.inconclusive != "" && f == nil {
			p := writeReplay(p.ID, p.Name, raw, &Failure{Key: "inconclusive", Msg: o.inconclusive})
			_ = os.Rename(p, strings.TrimSuffix(p, ".json")+".inconclusive.json")
		}
		if f != nil {
			st.Failures = append(st.Failures, f.Key)
			if os.Getenv("VERIF_SURVEY") != "" {
				// triage mode: count failure keys and keep searching (never used by registered checks)
				if st.Labels["SURVEY:"+f.Key] == 0 {
					p := writeReplay(p.ID, p.Name, raw, f)
					san := strings.Map(func(r rune) rune {
						if (r >= 'a' && r <= 'z') || (r >= 'A' && r <= 'Z') || (r >= '0' && r <= '9') {
							return r
						}
						return '_'
					}, f.Key)
					_ = os.Rename(p, strings.TrimSuffix(p, ".json")+".survey."+san+".json")
				}
				st.Labels["SURVEY:"+f.Key]++
				f = nil
			}
		}
		global.mu.Unlock()
		if f != nil {
			path := writeReplay(p.ID, p.Name, raw, f)
			// The driver greps for this line.
			fmt.Printf("VERIF-FAIL property=%s check=%s key=%q replay=%s\n", p.ID, p.Name, f.Key, path)
			rt.Fatalf("%s", f.Error())
		}
	})
}

func replay[C any](t *testing.T, p Prop[C], path string) {
	b, err := os.ReadFile(path)
	if err != nil {
		t.Skipf("replay file: %v", err)
	}
	var rf replayFile
	if err := json.Unmarshal(b, &rf); err != nil {
		t.Fatalf("bad replay file: %v", err)
	}
	if rf.Check != p.Name {
		t.Skip("replay file is for another check")
	}
	var c C
	if err := json.Unmarshal(rf.Case, &c); err != nil {
		t.Fatalf("bad case in replay file: %v", err)
	}
	times := 1
	if s := os.Getenv("VERIF_REPLAY_TIMES"); s != "" {
		times, _ = strconv.Atoi(s)
	}
	fails := 0
	var last *Failure
	for i := 0; i < times; i++ {
		if f := safeCheck(p, c, nil); f != nil {
			fails++
			last = f
		}
	}
	fmt.Printf("VERIF-REPLAY property=%s check=%s runs=%d failed=%d\n", p.ID, p.Name, times, fails)
	if last != nil {
		fmt.Printf("VERIF-REPLAY-FAIL property=%s check=%s key=%q msg=%q\n", p.ID, p.Name, last.Key, last.Msg)
		t.Fatalf("replayed case fails (%d/%d): %s", fails, times, last.Error())
	}
}

// ---- known findings ------------------------------------------------------

type finding struct {
	Property string   `json:"property"`
	Status   string   `json:"status"`
	Key      string   `json:"key"`
	Keys     []string `json:"keys"` // further failure keys of the same root cause
}

var (
	findingsOnce sync.Once
	openKeys     map[string]bool
)

// Open reports whether known_findings.json lists key as an open finding; a
// generator uses it to steer around that input class (and must count the
// exclusion with CountExcluded) so the search continues behind the finding.
func Open(key string) bool {
	if os.Getenv("VERIF_REPLAY") != "" && os.Getenv("VERIF_REPLAY_KEEP_EXCLUSIONS") == "" {
		return false // a replayed tape is judged in full, nothing is steered around (diagnosis can keep the exclusions)
	}
	findingsOnce.Do(func() {
		openKeys = map[string]bool{}
		path := os.Getenv("VERIF_FINDINGS")
		if path == "" {
			path = "/verif/known_findings.json"
		}
		b, err := os.ReadFile(path)
		if err != nil {
			return
		}
		var doc struct {
			Findings []finding `json:"findings"`
		}
		if json.Unmarshal(b, &doc) != nil {
			return
		}
		for _, f := range doc.Findings {
			if f.Status == "open" {
				openKeys[f.Key] = true
				for _, k := range f.Keys {
					openKeys[k] = true
				}
			}
		}
	})
	return openKeys[key]
}

func panicSite() string {
	// first frame inside the repository under test
	buf := make([]byte, 16<<10)
	n := stackInto(buf)
	lines := strings.Split(string(buf[:n]), "\n")
	for _, l := range lines {
		l = strings.TrimSpace(l)
		if strings.HasPrefix(l, "/repo/") {
			if i := strings.Index(l, " "); i > 0 {
				l = l[:i]
			}
			return strings.TrimPrefix(l, "/repo/")
		}
	}
	return "unknown"
}
