package pbt

import "runtime"

func stackInto(buf []byte) int { return runtime.Stack(buf, false) }
