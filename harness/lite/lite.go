// Package lite is harness layer B0: N simulated nodes without raft. Every node
// has the repository's own Dataset object (same metadata), its own in-memory
// Badger, a real DatasetManager and the real services.* servers; the
// Search/DataManager *clients* the Dataset uses to reach other nodes are
// in-memory shims that call the target node's server methods and can delay,
// fail, fail after a partial stream, or hang until the context is cancelled.
package lite

import (
	"context"
	"errors"
	"fmt"
	"github.com/golang/protobuf/proto"
	"google.golang.org/grpc/codes"
	"google.golang.org/grpc/status"
	"io"
	"sync"
	"time"
	"verifharness/catalog"

	badger "github.com/dgraph-io/badger/v2"
	"github.com/marekgalovic/anndb/cluster"
	pb "github.com/marekgalovic/anndb/protobuf"
	"github.com/marekgalovic/anndb/services"
	"github.com/marekgalovic/anndb/storage"
	"github.com/marekgalovic/anndb/storage/raft"
	uuid "github.com/satori/go.uuid"
	"google.golang.org/grpc"
	"google.golang.org/grpc/metadata"
	"verifharness/gen"
)

// Behaviour of a shim link towards one target node.
const (
	BehOK = iota
	BehDelay
	BehError
	BehPartialThenError // streams: deliver some items, then an error
	BehHang             // block until ctx is cancelled, then return ctx.Err()
	BehNoClient         // the node is unknown to its peers: no injected client and no address to dial
)

var ErrInjected = errors.New("injected failure")

type Behaviour struct {
	Kind    int `json:"kind"`
	DelayUs int `json:"delay_us,omitempty"`
	// Code: BehError on the data-manager links fails with this gRPC status code (0 = a plain error), e.g. 1 = Canceled
	// ("the client connection is closing"), 14 = Unavailable
	Code int `json:"code,omitempty"`
	// Times: n > 0 = only the first n calls to the node misbehave (a transient fault: a stale connection, a node that
	// was restarting); 0 = every call
	Times int `json:"times,omitempty"`
}

type nopGroup struct{}

func (nopGroup) RegisterProcessFn(raft.ProcessFn) error         { return nil }
func (nopGroup) RegisterProcessSnapshotFn(raft.ProcessFn) error { return nil }
func (nopGroup) RegisterSnapshotFn(raft.SnapshotFn) error       { return nil }
func (nopGroup) LeaderId() uint64                               { return 0 }
func (nopGroup) Propose(context.Context, []byte) error          { return errors.New("no raft in layer B0") }

type Node struct {
	Id      uint64
	Rep     *catalog.Replica // the node's catalogue objects (scripted zero group, real transport)
	DB      *badger.DB
	Conn    *cluster.Conn
	Alloc   *storage.Allocator
	DM      *storage.DatasetManager
	Dataset *storage.Dataset
	Search  pb.SearchServer
	Data    pb.DataManagerServer
}

// TagKey is the context key under which a check tags one logical request, so
// calls made by stragglers of an earlier request are not attributed to a later one.
type TagKey struct{}

type SearchCall struct {
	Tag        interface{}
	From, To   uint64
	Partitions []uuid.UUID
	Items      []*pb.SearchResultItem // what the target's server produced
	Delivered  int                    // how many the shim handed to the caller
	Err        error                  // error the shim returned (nil = clean EOF)
}

type InfoCall struct {
	From, To  uint64
	Partition uuid.UUID
	Len       uint64
	Bytes     uint64
	Err       error
}

type Cluster struct {
	Meta  pb.Dataset
	Nodes []*Node

	mu          sync.Mutex
	SearchCalls []*SearchCall
	InfoCalls   []*InfoCall
	// Beh[to] is the behaviour of links towards node index `to`
	Beh   map[uint64]Behaviour
	calls map[uint64]int // calls made to a node so far (transient behaviours)
}

func NodeID(i int) uint64 { return uint64(7001 + 13*i) }

// New builds the cluster. placement[p] lists node indexes hosting partition p.
func New(nNodes int, dim int, metric int, placement [][]int, unreachable ...int) *Cluster {
	c := &Cluster{Beh: map[uint64]Behaviour{}}
	c.Meta = pb.Dataset{Id: gen.ID(424242).Bytes(), Dimension: uint32(dim), Space: pb.Space(metric), PartitionCount: uint32(len(placement)), ReplicationFactor: 1}
	for p, nodes := range placement {
		part := &pb.Partition{Id: gen.ID(500000 + 2*p).Bytes()}
		for _, n := range nodes {
			part.NodeIds = append(part.NodeIds, NodeID(n))
		}
		c.Meta.Partitions = append(c.Meta.Partitions, part)
	}
	for i := 0; i < nNodes; i++ {
		var members []uint64
		for j := 0; j < nNodes; j++ {
			members = append(members, NodeID(j))
		}
		rep := catalog.NewReplica(fmt.Sprintf("lite%d", i), NodeID(i), members)
		n := &Node{Id: NodeID(i), Rep: rep, DB: rep.DB, Conn: rep.Conn, Alloc: rep.Alloc, DM: rep.DM}
		var err error
		// every node gets its own deep copy of the metadata
		meta := cloneMeta(&c.Meta)
		n.Dataset, err = storage.VerifNewDataset(*meta, n.DB, rep.Tr, n.Conn, n.DM)
		if err != nil {
			panic(err)
		}
		n.DM.VerifAddDataset(n.Dataset)
		n.Search = services.NewSearchServer(n.DM)
		n.Data = services.NewDataManagerServer(n.DM)
		c.Nodes = append(c.Nodes, n)
	}
	un := map[int]bool{}
	for _, u := range unreachable {
		un[u] = true
		// (the node has left the cluster: its peers hold no address for it either, so a client can not even be dialled)
		for i, n := range c.Nodes {
			if i != u {
				n.Conn.RemoveNode(NodeID(u))
			}
		}
	}
	c.Wire(un)
	return c
}

// Wire injects the client shims; nodes listed in unreachable get none (their
// peers then have neither a client nor an address for them).
func (c *Cluster) Wire(unreachable map[int]bool) {
	for _, from := range c.Nodes {
		for i, to := range c.Nodes {
			if unreachable[i] && from != to {
				continue
			}
			from.Dataset.VerifSetClients(to.Id, &searchShim{c: c, from: from, to: to}, &dataShim{c: c, from: from, to: to})
		}
	}
}

func cloneMeta(m *pb.Dataset) *pb.Dataset {
	c := *m
	c.Partitions = nil
	for _, p := range m.Partitions {
		c.Partitions = append(c.Partitions, &pb.Partition{Id: append([]byte(nil), p.Id...), NodeIds: append([]uint64(nil), p.NodeIds...)})
	}
	return &c
}

func (c *Cluster) Close() {
	for _, n := range c.Nodes {
		before := catalog.Leaked
		n.Rep.Close()
		catalog.Leaked = before // raft groups loaded by MovePartition are stopped here on purpose
	}
}

// MovePartition tells node `node` - through its catalogue, either as a snapshot it catches up from or as the two log
// entries - that partition p is now hosted by newNodes. Other nodes keep their (then stale) view.
func (c *Cluster) MovePartition(node, p int, newNodes []int, viaSnapshot bool) error {
	n := c.Nodes[node]
	meta := cloneMeta(n.Dataset.Meta())
	old := meta.Partitions[p].NodeIds
	var ids []uint64
	for _, x := range newNodes {
		ids = append(ids, NodeID(x))
	}
	meta.Partitions[p].NodeIds = ids
	if viaSnapshot {
		b, err := proto.Marshal(&pb.DatasetManagerSnapshot{Datasets: []*pb.Dataset{meta}})
		if err != nil {
			return err
		}
		return n.Rep.G.ProcessSnap(b)
	}
	has := func(l []uint64, x uint64) bool {
		for _, y := range l {
			if y == x {
				return true
			}
		}
		return false
	}
	seq := 0
	apply := func(t pb.DatasetPartitionNodesChangeType, id uint64) error {
		seq++
		ch := &pb.DatasetPartitionNodesChange{Type: t, DatasetId: meta.Id, PartitionId: meta.Partitions[p].Id, NodeId: id}
		cb, _ := proto.Marshal(ch)
		b, _ := proto.Marshal(&pb.DatasetManagerChange{Type: pb.DatasetManagerChangeType_DatasetManagerUpdatePartitionNodes, NotificationId: gen.ID(880000 + 100*p + seq).Bytes(), Data: cb})
		return n.Rep.G.Process(b)
	}
	for _, id := range ids {
		if !has(old, id) {
			if err := apply(pb.DatasetPartitionNodesChangeType_DatasetPartitionNodesChangeAddNode, id); err != nil {
				return err
			}
		}
	}
	for _, id := range old {
		if !has(ids, id) {
			if err := apply(pb.DatasetPartitionNodesChangeType_DatasetPartitionNodesChangeRemoveNode, id); err != nil {
				return err
			}
		}
	}
	return nil
}

func (c *Cluster) behaviour(to uint64) Behaviour {
	c.mu.Lock()
	defer c.mu.Unlock()
	b := c.Beh[to]
	if b.Times > 0 {
		if c.calls == nil {
			c.calls = map[uint64]int{}
		}
		c.calls[to]++
		if c.calls[to] > b.Times {
			return Behaviour{}
		}
	}
	return b
}

// ---- search shim ------------------------------------------------------------

type searchShim struct {
	c        *Cluster
	from, to *Node
}

// collectStream is the server side of an in-memory stream.
type collectStream struct {
	grpc.ServerStream
	ctx   context.Context
	items []*pb.SearchResultItem
}

func (s *collectStream) Send(i *pb.SearchResultItem) error { s.items = append(s.items, i); return nil }
func (s *collectStream) Context() context.Context          { return s.ctx }
func (s *collectStream) SetHeader(metadata.MD) error       { return nil }
func (s *collectStream) SendHeader(metadata.MD) error      { return nil }
func (s *collectStream) SetTrailer(metadata.MD)            {}

// replayStream is the client side.
type replayStream struct {
	grpc.ClientStream
	ctx   context.Context
	items []*pb.SearchResultItem
	pos   int
	limit int   // deliver at most limit items, then endErr
	end   error // io.EOF or an injected error
	call  *SearchCall
	mu    *sync.Mutex
}

func (r *replayStream) Recv() (*pb.SearchResultItem, error) {
	if r.pos < r.limit && r.pos < len(r.items) {
		it := r.items[r.pos]
		r.pos++
		r.mu.Lock()
		r.call.Delivered = r.pos
		r.mu.Unlock()
		return it, nil
	}
	return nil, r.end
}

// injected is the error a failing link returns: a plain error, a gRPC status with the behaviour's code, or (Code -1)
// the bare context.Canceled value - although the caller's context is alive, as when the serving node resets the stream.
func injected(b Behaviour) error {
	switch {
	case b.Code > 0:
		return status.Error(codes.Code(b.Code), "injected failure")
	case b.Code < 0:
		return context.Canceled
	}
	return ErrInjected
}

func (s *searchShim) wait(ctx context.Context, b Behaviour) error {
	switch b.Kind {
	case BehDelay:
		select {
		case <-time.After(time.Duration(b.DelayUs) * time.Microsecond):
		case <-ctx.Done():
			return ctx.Err()
		}
	case BehHang:
		<-ctx.Done()
		return ctx.Err()
	}
	return nil
}

func (s *searchShim) Search(ctx context.Context, in *pb.SearchRequest, _ ...grpc.CallOption) (pb.Search_SearchClient, error) {
	return nil, errors.New("lite: Search RPC between nodes is not used by the repository")
}

func (s *searchShim) SearchPartitions(ctx context.Context, in *pb.SearchPartitionsRequest, _ ...grpc.CallOption) (pb.Search_SearchPartitionsClient, error) {
	b := s.c.behaviour(s.to.Id)
	call := &SearchCall{From: s.from.Id, To: s.to.Id, Tag: ctx.Value(TagKey{})}
	for _, p := range in.GetPartitionIds() {
		call.Partitions = append(call.Partitions, uuid.FromBytesOrNil(p))
	}
	s.c.mu.Lock()
	s.c.SearchCalls = append(s.c.SearchCalls, call)
	s.c.mu.Unlock()
	if err := s.wait(ctx, b); err != nil {
		call.Err = err
		return nil, err
	}
	if b.Kind == BehError {
		call.Err = injected(b)
		return nil, call.Err
	}
	srv := &collectStream{ctx: ctx}
	if err := s.to.Search.SearchPartitions(in, srv); err != nil {
		call.Err = err
		return nil, err
	}
	call.Items = srv.items
	rs := &replayStream{ctx: ctx, items: srv.items, limit: len(srv.items), end: io.EOF, call: call, mu: &s.c.mu}
	if b.Kind == BehPartialThenError {
		rs.limit = len(srv.items) / 2
		rs.end = injected(b)
		call.Err = rs.end
	}
	return rs, nil
}

// ---- data manager shim --------------------------------------------------------

type dataShim struct {
	c        *Cluster
	from, to *Node
}

func (d *dataShim) pre(ctx context.Context) error {
	b := d.c.behaviour(d.to.Id)
	switch b.Kind {
	case BehDelay:
		select {
		case <-time.After(time.Duration(b.DelayUs) * time.Microsecond):
		case <-ctx.Done():
			return ctx.Err()
		}
	case BehHang:
		<-ctx.Done()
		return ctx.Err()
	case BehError, BehPartialThenError:
		if b.Code != 0 {
			return status.Error(codes.Code(b.Code), "injected failure")
		}
		return ErrInjected
	}
	return nil
}

func (d *dataShim) Insert(ctx context.Context, in *pb.InsertRequest, _ ...grpc.CallOption) (*pb.EmptyMessage, error) {
	if err := d.pre(ctx); err != nil {
		return nil, err
	}
	return d.to.Data.Insert(ctx, in)
}
func (d *dataShim) Update(ctx context.Context, in *pb.UpdateRequest, _ ...grpc.CallOption) (*pb.EmptyMessage, error) {
	if err := d.pre(ctx); err != nil {
		return nil, err
	}
	return d.to.Data.Update(ctx, in)
}
func (d *dataShim) Remove(ctx context.Context, in *pb.RemoveRequest, _ ...grpc.CallOption) (*pb.EmptyMessage, error) {
	if err := d.pre(ctx); err != nil {
		return nil, err
	}
	return d.to.Data.Remove(ctx, in)
}
func (d *dataShim) BatchInsert(ctx context.Context, in *pb.BatchRequest, _ ...grpc.CallOption) (*pb.BatchResponse, error) {
	if err := d.pre(ctx); err != nil {
		return nil, err
	}
	return d.to.Data.BatchInsert(ctx, in)
}
func (d *dataShim) BatchUpdate(ctx context.Context, in *pb.BatchRequest, _ ...grpc.CallOption) (*pb.BatchResponse, error) {
	if err := d.pre(ctx); err != nil {
		return nil, err
	}
	return d.to.Data.BatchUpdate(ctx, in)
}
func (d *dataShim) BatchRemove(ctx context.Context, in *pb.BatchRequest, _ ...grpc.CallOption) (*pb.BatchResponse, error) {
	if err := d.pre(ctx); err != nil {
		return nil, err
	}
	return d.to.Data.BatchRemove(ctx, in)
}
func (d *dataShim) PartitionBatchInsert(ctx context.Context, in *pb.PartitionBatchRequest, _ ...grpc.CallOption) (*pb.BatchResponse, error) {
	if err := d.pre(ctx); err != nil {
		return nil, err
	}
	return d.to.Data.PartitionBatchInsert(ctx, in)
}
func (d *dataShim) PartitionBatchUpdate(ctx context.Context, in *pb.PartitionBatchRequest, _ ...grpc.CallOption) (*pb.BatchResponse, error) {
	if err := d.pre(ctx); err != nil {
		return nil, err
	}
	return d.to.Data.PartitionBatchUpdate(ctx, in)
}
func (d *dataShim) PartitionBatchRemove(ctx context.Context, in *pb.PartitionBatchRequest, _ ...grpc.CallOption) (*pb.BatchResponse, error) {
	if err := d.pre(ctx); err != nil {
		return nil, err
	}
	return d.to.Data.PartitionBatchRemove(ctx, in)
}
func (d *dataShim) PartitionInfo(ctx context.Context, in *pb.PartitionInfoRequest, _ ...grpc.CallOption) (*pb.PartitionInfoResponse, error) {
	call := &InfoCall{From: d.from.Id, To: d.to.Id, Partition: uuid.FromBytesOrNil(in.GetPartitionId())}
	d.c.mu.Lock()
	d.c.InfoCalls = append(d.c.InfoCalls, call)
	d.c.mu.Unlock()
	if err := d.pre(ctx); err != nil {
		call.Err = err
		return nil, err
	}
	r, err := d.to.Data.PartitionInfo(ctx, in)
	if err != nil {
		call.Err = err
		return nil, err
	}
	call.Len, call.Bytes = r.GetLen(), r.GetBytesSize()
	return r, nil
}

// ResetCalls clears the recorded call logs.
func (c *Cluster) ResetCalls() {
	c.mu.Lock()
	c.SearchCalls, c.InfoCalls = nil, nil
	c.mu.Unlock()
}

func (c *Cluster) Calls() ([]*SearchCall, []*InfoCall) {
	c.mu.Lock()
	defer c.mu.Unlock()
	return append([]*SearchCall(nil), c.SearchCalls...), append([]*InfoCall(nil), c.InfoCalls...)
}
