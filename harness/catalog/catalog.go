// Package catalog drives the repository's DatasetManager as a replicated state
// machine over a scripted raft.Group: the harness captures the process /
// snapshot / restore functions the manager registers and feeds them bytes
// exactly as the shared zero group would. Used by C14, C18 and C10.
package catalog

import (
	"context"
	"errors"
	"fmt"
	"os"
	"sort"
	"strings"
	"sync"
	"time"

	badger "github.com/dgraph-io/badger/v2"
	"github.com/golang/protobuf/proto"
	"github.com/marekgalovic/anndb/cluster"
	pb "github.com/marekgalovic/anndb/protobuf"
	"github.com/marekgalovic/anndb/storage"
	"github.com/marekgalovic/anndb/storage/raft"
	uuid "github.com/satori/go.uuid"
	"verifharness/gen"
	"verifharness/hutil"
)

// ScriptGroup implements raft.Group and records what the consumer registers.
type ScriptGroup struct {
	Process     raft.ProcessFn
	ProcessSnap raft.ProcessFn
	Snapshot    raft.SnapshotFn
	Proposals   [][]byte
	// Commit: proposals are accepted (Propose returns nil, as a raft node does once the proposal is handed over) and
	// queued; the harness, playing the group's ready loop, applies them later in proposal order (TakePending).
	// Otherwise every proposal fails at once.
	Commit bool
	// Late (with Commit): Propose returns only after the ready loop has applied the proposal (or after a second) - the
	// proposing goroutine was descheduled after handing the proposal over, so the outcome is there before it waits.
	Late    bool
	mu      sync.Mutex
	pending []Pending
}

// Pending is an accepted proposal; the ready loop calls Applied after processing it.
type Pending struct {
	Data []byte
	done chan struct{}
}

func (p Pending) Applied() { close(p.done) }

func (g *ScriptGroup) RegisterProcessFn(f raft.ProcessFn) error { g.Process = f; return nil }
func (g *ScriptGroup) RegisterProcessSnapshotFn(f raft.ProcessFn) error {
	g.ProcessSnap = f
	return nil
}
func (g *ScriptGroup) RegisterSnapshotFn(f raft.SnapshotFn) error { g.Snapshot = f; return nil }
func (g *ScriptGroup) LeaderId() uint64                           { return 1 }
func (g *ScriptGroup) Propose(ctx context.Context, data []byte) error {
	g.mu.Lock()
	g.Proposals = append(g.Proposals, append([]byte(nil), data...))
	if !g.Commit {
		g.mu.Unlock()
		return errors.New("scripted group: proposals are applied by the harness")
	}
	p := Pending{append([]byte(nil), data...), make(chan struct{})}
	g.pending = append(g.pending, p)
	late := g.Late
	g.mu.Unlock()
	if late {
		select {
		case <-p.done:
		case <-time.After(time.Second):
		case <-ctx.Done():
		}
	}
	return nil
}

// TakePending removes and returns the accepted proposals that have not been applied yet, oldest first.
func (g *ScriptGroup) TakePending() []Pending {
	g.mu.Lock()
	defer g.mu.Unlock()
	p := g.pending
	g.pending = nil
	return p
}

// ProposedNodeChange tells whether this node has proposed a replica-set change for a partition of the dataset.
func (g *ScriptGroup) ProposedNodeChange(dataset uuid.UUID) bool {
	g.mu.Lock()
	defer g.mu.Unlock()
	for _, b := range g.Proposals {
		var ch pb.DatasetManagerChange
		if proto.Unmarshal(b, &ch) != nil || ch.Type != pb.DatasetManagerChangeType_DatasetManagerUpdatePartitionNodes {
			continue
		}
		var c pb.DatasetPartitionNodesChange
		if proto.Unmarshal(ch.Data, &c) == nil && uuid.Equal(uuid.FromBytesOrNil(c.DatasetId), dataset) {
			return true
		}
	}
	return false
}

// Leaked counts raft groups that were still running although no dataset of the
// manager referred to them any more (reported by the checks).
var Leaked int

// Replica is one node's catalogue.
type Replica struct {
	KeepDB bool // Close leaves the store open (it outlives this incarnation)
	Name   string
	DB     *badger.DB
	Conn   *cluster.Conn
	Alloc  *storage.Allocator
	Tr     *raft.RaftTransport
	G      *ScriptGroup
	DM     *storage.DatasetManager
}

// NewReplica builds a manager for node selfId in a cluster whose members are
// `members` (added to the Conn before the allocator starts, so no membership
// notification is pending).
func NewReplica(name string, selfId uint64, members []uint64) *Replica {
	return NewReplicaOnDB(name, selfId, members, hutil.MemDB())
}

// NewReplicaOnDB builds a (re)started node over an existing store; Close does not close a DB passed in here
// unless OwnsDB is set.
func NewReplicaOnDB(name string, selfId uint64, members []uint64, db *badger.DB) *Replica {
	r := &Replica{Name: name, DB: db, G: &ScriptGroup{}}
	var err error
	r.Conn, err = cluster.NewConn(selfId, "127.0.0.1:1", "")
	if err != nil {
		panic(err)
	}
	for _, m := range members {
		r.Conn.AddNode(m, fmt.Sprintf("127.0.0.1:%d", 2+m%1000))
	}
	r.Tr = raft.NewTransport(selfId, "127.0.0.1:1", r.Conn)
	r.Alloc = storage.NewAllocator(r.Conn)
	r.DM, err = storage.NewDatasetManager(r.G, r.DB, r.Tr, r.Conn, r.Alloc)
	if err != nil {
		panic(err)
	}
	return r
}

// Flush makes sure the allocator loop has finished every load/unload queued so
// far: watch/unwatch hand their update over synchronously, so two further
// hand-overs (a throw-away dataset created and deleted) cannot complete before
// the loop is done with everything queued earlier.
func (r *Replica) Flush() {
	m := Model{}
	c := Op{K: OpCreate, Slot: 4999, Dim: 1, Nodes: [][]uint64{{424242}}}
	_ = r.G.Process(Marshal(c, 900001, m))
	_ = r.G.Process(Marshal(Op{K: OpDelete, Slot: 4999}, 900002, m))
	_ = r.G.Process(Marshal(c, 900003, m))
	_ = r.G.Process(Marshal(Op{K: OpDelete, Slot: 4999}, 900004, m))
}

func (r *Replica) Close() {
	r.Flush()
	r.DM.Close()
	// anything still registered on the transport would outlive the DB (harness hygiene)
	for _, g := range r.Tr.VerifGroups() {
		Leaked++
		if os.Getenv("VERIF_DEBUG_LEAK") != "" {
			fmt.Printf("LEAK replica=%s group=%x\n", r.Name, g.VerifId())
		}
		g.Stop()
	}
	r.Alloc.Stop()
	if !r.KeepDB {
		r.DB.Close()
	}
}

// ---- catalogue log -----------------------------------------------------------

const (
	OpCreate = iota
	OpDelete
	OpAddNode
	OpRemoveNode
)

type Op struct {
	K     int        `json:"k"`
	Slot  int        `json:"slot"`            // dataset slot (id = DatasetID(slot))
	Dim   int        `json:"dim,omitempty"`   // create
	Space int        `json:"space,omitempty"` // create
	Nodes [][]uint64 `json:"nodes,omitempty"` // create: per partition node ids
	Part  int        `json:"part,omitempty"`  // add/remove node: partition index (mod count)
	Node  uint64     `json:"node,omitempty"`
	Gen   int        `json:"gen,omitempty"`  // create: generation of the slot's partition ids
	Repl  int        `json:"repl,omitempty"` // create: replication factor (0 = 1)
}

func (o Op) String() string {
	switch o.K {
	case OpCreate:
		return fmt.Sprintf("create(ds%d,dim=%d,space=%d,nodes=%v)", o.Slot, o.Dim, o.Space, o.Nodes)
	case OpDelete:
		return fmt.Sprintf("delete(ds%d)", o.Slot)
	case OpAddNode:
		return fmt.Sprintf("addNode(ds%d,p%d,%d)", o.Slot, o.Part, o.Node)
	default:
		return fmt.Sprintf("removeNode(ds%d,p%d,%d)", o.Slot, o.Part, o.Node)
	}
}

func DatasetID(slot int) uuid.UUID            { return gen.ID(9000 + 2*slot) }
func PartitionID(slot, gen_, p int) uuid.UUID { return gen.ID(20000 + 2000*slot + 200*gen_ + 2*p) }
func NotifID(i int) uuid.UUID                 { return gen.ID(300000 + 2*i) }

// ModelDataset is the sequential catalogue model's view of one dataset.
type ModelDataset struct {
	Dim, Space uint32
	Parts      []uuid.UUID
	Nodes      [][]uint64
}

type Model map[uuid.UUID]*ModelDataset

// Marshal builds the DatasetManagerChange bytes for op i.
func Marshal(o Op, i int, m Model) []byte {
	ch := &pb.DatasetManagerChange{NotificationId: NotifID(i).Bytes()}
	switch o.K {
	case OpCreate:
		ds := &pb.Dataset{Id: DatasetID(o.Slot).Bytes(), Dimension: uint32(o.Dim), Space: pb.Space(o.Space), PartitionCount: uint32(len(o.Nodes)), ReplicationFactor: 1}
		if o.Repl > 1 {
			ds.ReplicationFactor = uint32(o.Repl)
		}
		for p, ns := range o.Nodes {
			ds.Partitions = append(ds.Partitions, &pb.Partition{Id: PartitionID(o.Slot, o.Gen, p).Bytes(), NodeIds: append([]uint64(nil), ns...)})
		}
		b, _ := proto.Marshal(ds)
		ch.Type, ch.Data = pb.DatasetManagerChangeType_DatasetManagerCreateDataset, b
	case OpDelete:
		ch.Type, ch.Data = pb.DatasetManagerChangeType_DatasetManagerDeleteDataset, DatasetID(o.Slot).Bytes()
	default:
		c := &pb.DatasetPartitionNodesChange{DatasetId: DatasetID(o.Slot).Bytes(), NodeId: o.Node}
		if d, ok := m[DatasetID(o.Slot)]; ok && len(d.Parts) > 0 {
			c.PartitionId = d.Parts[o.Part%len(d.Parts)].Bytes()
		} else {
			c.PartitionId = PartitionID(o.Slot, 0, 0).Bytes()
		}
		c.Type = pb.DatasetPartitionNodesChangeType_DatasetPartitionNodesChangeAddNode
		if o.K == OpRemoveNode {
			c.Type = pb.DatasetPartitionNodesChangeType_DatasetPartitionNodesChangeRemoveNode
		}
		b, _ := proto.Marshal(c)
		ch.Type, ch.Data = pb.DatasetManagerChangeType_DatasetManagerUpdatePartitionNodes, b
	}
	b, err := proto.Marshal(ch)
	if err != nil {
		panic(err)
	}
	return b
}

// ApplyModel applies o to the sequential model.
func ApplyModel(m Model, o Op) {
	id := DatasetID(o.Slot)
	switch o.K {
	case OpCreate:
		if _, ok := m[id]; ok {
			return
		}
		d := &ModelDataset{Dim: uint32(o.Dim), Space: uint32(o.Space)}
		for p, ns := range o.Nodes {
			d.Parts = append(d.Parts, PartitionID(o.Slot, o.Gen, p))
			d.Nodes = append(d.Nodes, append([]uint64(nil), ns...))
		}
		m[id] = d
	case OpDelete:
		delete(m, id)
	case OpAddNode, OpRemoveNode:
		d, ok := m[id]
		if !ok || len(d.Parts) == 0 {
			return
		}
		p := o.Part % len(d.Parts)
		if o.K == OpAddNode {
			d.Nodes[p] = append(d.Nodes[p], o.Node)
		} else {
			var keep []uint64
			for _, n := range d.Nodes[p] {
				if n != o.Node {
					keep = append(keep, n)
				}
			}
			d.Nodes[p] = keep
		}
	}
}

func renderDataset(id uuid.UUID, dim, space uint32, parts []uuid.UUID, nodes [][]uint64) string {
	var b strings.Builder
	fmt.Fprintf(&b, "%s dim=%d space=%d [", gen.IDHex(id), dim, space)
	for i := range parts {
		fmt.Fprintf(&b, " %s:%v", gen.IDHex(parts[i]), append([]uint64{}, nodes[i]...))
	}
	b.WriteString(" ]")
	return b.String()
}

// RenderModel gives a canonical text of the catalogue (sorted by id).
func RenderModel(m Model) string {
	var lines []string
	for id, d := range m {
		lines = append(lines, renderDataset(id, d.Dim, d.Space, d.Parts, d.Nodes))
	}
	sort.Strings(lines)
	return strings.Join(lines, "\n")
}

// RenderReplica gives the same canonical text from DatasetManager.List.
func RenderReplica(r *Replica) (string, error) {
	ds, err := r.DM.List(context.Background(), false)
	if err != nil {
		return "", err
	}
	var lines []string
	for _, d := range ds {
		id := uuid.FromBytesOrNil(d.GetId())
		var parts []uuid.UUID
		var nodes [][]uint64
		for _, p := range d.GetPartitions() {
			parts = append(parts, uuid.FromBytesOrNil(p.GetId()))
			nodes = append(nodes, p.GetNodeIds())
		}
		lines = append(lines, renderDataset(id, d.GetDimension(), uint32(d.GetSpace()), parts, nodes))
	}
	sort.Strings(lines)
	return strings.Join(lines, "\n"), nil
}
