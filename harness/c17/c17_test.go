// C17 — dataset size is the sum of its partitions, each counted once.
package c17

import (
	"context"
	"fmt"
	"testing"
	"time"

	"github.com/marekgalovic/anndb/index"
	amath "github.com/marekgalovic/anndb/math"
	"pgregory.net/rapid"
	"verifharness/gen"
	"verifharness/lite"
	"verifharness/pbt"
)

func TestMain(m *testing.M) { pbt.Main(m) }

type Case struct {
	Nodes     int              `json:"nodes"`
	Placement [][]int          `json:"placement"` // partition -> hosting node indexes (non-empty, distinct)
	Sizes     []int            `json:"sizes"`     // items per partition
	Asker     int              `json:"asker"`
	Beh       []lite.Behaviour `json:"beh"` // per target node
	// Moves: partitions that have moved away from one of their hosts; only that former host (and the new host) know,
	// every other node - the asker included - still has the old replica list
	Moves []Move `json:"moves,omitempty"`
	// Patient: with a hanging lookup the caller waits 2.6 s instead of 60 ms (a client without a tight deadline)
	Patient bool `json:"patient,omitempty"`
}

type Move struct {
	P           int  `json:"p"`
	From        int  `json:"from"`  // index into Placement[P]: the host that gave the partition up
	To          int  `json:"to"`    // node selector for the new host (a node not hosting P)
	Extra       int  `json:"extra"` // items written to the partition after the move
	ViaSnapshot bool `json:"via_snapshot"`
}

func genCase(t *rapid.T) Case {
	c := Case{Nodes: rapid.IntRange(1, 4).Draw(t, "nodes")}
	p := rapid.IntRange(1, 8).Draw(t, "partitions")
	for i := 0; i < p; i++ {
		perm := rapid.Permutation(seq(c.Nodes)).Draw(t, "perm")
		k := rapid.IntRange(1, c.Nodes).Draw(t, "replicas")
		c.Placement = append(c.Placement, perm[:k])
		c.Sizes = append(c.Sizes, rapid.IntRange(0, 9).Draw(t, "size"))
	}
	c.Asker = rapid.IntRange(0, c.Nodes-1).Draw(t, "asker")
	faulty := rapid.IntRange(0, 3).Draw(t, "faulty") == 0
	for i := 0; i < c.Nodes; i++ {
		b := lite.Behaviour{}
		if rapid.IntRange(0, 2).Draw(t, "delayed") == 0 {
			b = lite.Behaviour{Kind: lite.BehDelay, DelayUs: rapid.IntRange(0, 400).Draw(t, "us")}
		}
		if faulty && rapid.IntRange(0, 1).Draw(t, "fail") == 0 {
			b = lite.Behaviour{Kind: rapid.SampledFrom([]int{lite.BehError, lite.BehError, lite.BehHang, lite.BehNoClient}).Draw(t, "failkind")}
			if b.Kind == lite.BehError {
				// plain error, or a gRPC status: Canceled (1), Unknown (2), DeadlineExceeded (4), Internal (13), Unavailable (14)
				b.Code = rapid.SampledFrom([]int{0, 1, 1, 2, 4, 13, 14}).Draw(t, "code")
			}
		}
		c.Beh = append(c.Beh, b)
	}
	for _, b := range c.Beh {
		if b.Kind == lite.BehHang && rapid.IntRange(0, 11).Draw(t, "patient") == 0 {
			c.Patient = true
		}
	}
	if c.Nodes >= 2 && rapid.IntRange(0, 3).Draw(t, "moved") == 0 {
		for i, n := 0, rapid.IntRange(1, 2).Draw(t, "nmoves"); i < n; i++ {
			c.Moves = append(c.Moves, Move{P: rapid.IntRange(0, p-1).Draw(t, "mp"), From: rapid.IntRange(0, 3).Draw(t, "mfrom"), To: rapid.IntRange(0, 3).Draw(t, "mto"),
				Extra: rapid.IntRange(0, 4).Draw(t, "mextra"), ViaSnapshot: rapid.Bool().Draw(t, "msnap")})
		}
	}
	return c
}

func seq(n int) []int {
	s := make([]int, n)
	for i := range s {
		s[i] = i
	}
	return s
}

func check(c Case, o *pbt.Obs) *pbt.Failure {
	var unreachable []int
	for i, b := range c.Beh {
		if b.Kind == lite.BehNoClient && i != c.Asker {
			unreachable = append(unreachable, i)
		}
	}
	cl := lite.New(c.Nodes, 2, 0, c.Placement, unreachable...)
	defer cl.Close()
	// populate: every replica of partition p holds the same Sizes[p] items
	wantLen, wantBytes := uint64(0), uint64(0)
	for p, nodes := range c.Placement {
		var bs uint64
		for ri, n := range nodes {
			idx := cl.Nodes[n].Dataset.VerifPartitionIndex(p)
			for i := 0; i < c.Sizes[p]; i++ {
				if err := idx.Insert(gen.ID(10+100*p+i), amath.Vector{float32(p), float32(i)}, index.Metadata{"p": fmt.Sprint(p)}, i%3); err != nil {
					panic(err)
				}
			}
			if ri == 0 {
				bs = idx.BytesSize()
			} else if idx.BytesSize() != bs {
				panic("harness: replicas of one partition report different sizes")
			}
		}
		wantLen += uint64(c.Sizes[p])
		wantBytes += bs
	}
	// partitions that moved: the former host learns it through its catalogue (snapshot or log), the new hosts hold the
	// current contents, the former host keeps its frozen left-over index
	movedFrom := map[int]bool{} // node indexes that gave a partition up
	doneP := map[int]bool{}
	for _, mv := range c.Moves {
		pi := mv.P % len(c.Placement)
		hosts := c.Placement[pi]
		if doneP[pi] {
			continue
		}
		from := hosts[mv.From%len(hosts)]
		if from == c.Asker {
			continue // the asker's own view stays the old one
		}
		to := -1
		for k := 0; k < c.Nodes; k++ {
			cand := (mv.To + k) % c.Nodes
			hosting := false
			for _, h := range hosts {
				if h == cand {
					hosting = true
				}
			}
			if !hosting {
				to = cand
				break
			}
		}
		if to < 0 {
			continue
		}
		doneP[pi] = true
		var newHosts []int
		for _, h := range hosts {
			if h != from {
				newHosts = append(newHosts, h)
			}
		}
		newHosts = append(newHosts, to)
		if err := cl.MovePartition(from, pi, newHosts, mv.ViaSnapshot); err != nil {
			return pbt.Failf("C17:catalogue-apply", "node %d: applying the move of partition %d returned %v", from, pi, err)
		}
		if err := cl.MovePartition(to, pi, newHosts, mv.ViaSnapshot); err != nil {
			return pbt.Failf("C17:catalogue-apply", "node %d: applying the move of partition %d returned %v", to, pi, err)
		}
		movedFrom[from] = true
		// the new host gets the contents, then everybody who still hosts the partition gets Extra more items
		idxTo := cl.Nodes[to].Dataset.VerifPartitionIndex(pi)
		for i := 0; i < c.Sizes[pi]; i++ {
			if err := idxTo.Insert(gen.ID(10+100*pi+i), amath.Vector{float32(pi), float32(i)}, index.Metadata{"p": fmt.Sprint(pi)}, i%3); err != nil {
				panic(err)
			}
		}
		var bs uint64
		for _, h := range newHosts {
			idx := cl.Nodes[h].Dataset.VerifPartitionIndex(pi)
			before := idx.BytesSize()
			for i := 0; i < mv.Extra; i++ {
				if err := idx.Insert(gen.ID(10+100*pi+50+i), amath.Vector{float32(pi), float32(50 + i)}, index.Metadata{"p": fmt.Sprint(pi)}, i%3); err != nil {
					panic(err)
				}
			}
			bs = idx.BytesSize() - before
		}
		wantLen += uint64(mv.Extra)
		wantBytes += bs
		o.Label("partition-moved-off-a-host")
		if mv.ViaSnapshot {
			o.Label("move-learned-through-catalogue-snapshot")
		}
	}
	anyFaulty := false
	for i, b := range c.Beh {
		cl.Beh[lite.NodeID(i)] = b
		if b.Kind == lite.BehError || b.Kind == lite.BehHang || b.Kind == lite.BehNoClient {
			anyFaulty = true
		}
	}
	asker := cl.Nodes[c.Asker]
	remote := 0
	for _, nodes := range c.Placement {
		local := false
		for _, n := range nodes {
			if n == c.Asker {
				local = true
			}
		}
		if !local {
			remote++
		}
	}
	// a hung lookup ends only when the caller's deadline expires; without one the budget is generous
	timeout := 10 * time.Second
	for _, b := range c.Beh {
		if b.Kind == lite.BehHang {
			timeout = 60 * time.Millisecond
			if c.Patient {
				timeout = 2600 * time.Millisecond
				o.Label("patient-caller-with-a-hanging-lookup")
			}
		}
	}
	ctx, cancel := context.WithTimeout(context.Background(), timeout)
	l, b, err := asker.Dataset.SizeInfo(ctx)
	cancel()
	// let cancelled lookups unwind before reading the call log
	deadline := time.Now().Add(2 * time.Second)
	for {
		_, ic := cl.Calls()
		done := true
		for _, call := range ic {
			if call.Err == nil && call.Len == 0 && call.Bytes == 0 && c.Beh[idxOf(call.To)].Kind == lite.BehHang {
				done = false
			}
		}
		if done || time.Now().After(deadline) {
			break
		}
		time.Sleep(time.Millisecond)
	}
	_, calls := cl.Calls()
	failed := 0
	for _, call := range calls {
		if call.Err != nil || c.Beh[idxOf(call.To)].Kind == lite.BehHang || c.Beh[idxOf(call.To)].Kind == lite.BehError {
			failed++
		}
	}
	desc := fmt.Sprintf("nodes=%d placement=%v sizes=%v asker=%d beh=%v", c.Nodes, c.Placement, c.Sizes, c.Asker, c.Beh)
	if err == nil {
		// success: exact sums, whatever happened on the way (fail-over to another replica would be legitimate)
		if l != wantLen || b != wantBytes {
			return pbt.Failf("C17:wrong-sum", "%s: SizeInfo=(%d items,%d bytes), sum over partitions is (%d,%d); lookups=%s", desc, l, b, wantLen, wantBytes, renderCalls(calls))
		}
		if failed > 0 {
			o.Label("success-after-failed-lookup")
		}
		if !anyFaulty {
			// asking again changes nothing: the same Dataset object answers the same sums a second and a third time
			for again := 2; again <= 3; again++ {
				ctx2, cancel2 := context.WithTimeout(context.Background(), 10*time.Second)
				l2, b2, err2 := asker.Dataset.SizeInfo(ctx2)
				cancel2()
				if err2 == context.DeadlineExceeded {
					o.Label("deadline-without-failure(inconclusive)")
					return nil
				}
				if err2 != nil && len(movedFrom) > 0 {
					break // a stale asker may pick the node that no longer hosts the partition: failing is what the statement asks for
				}
				if err2 != nil || l2 != wantLen || b2 != wantBytes {
					return pbt.Failf("C17:wrong-sum", "%s: call %d of SizeInfo on the same dataset returned (%d items,%d bytes,%v), the first call and the sum over partitions are (%d,%d)", desc, again, l2, b2, err2, wantLen, wantBytes)
				}
			}
			o.Label("asked-three-times")
		}
	} else if err == context.DeadlineExceeded && failed == 0 {
		// the harness deadline fired although nothing failed (slow machine): inconclusive, never a violation
		o.Label("deadline-without-failure(inconclusive)")
		return nil
	} else {
		if !anyFaulty && len(movedFrom) == 0 {
			return pbt.Failf("C17:spurious-error", "%s: SizeInfo failed with %v although every node answers; lookups=%s", desc, err, renderCalls(calls))
		}
		if failed == 0 && remote > 0 && len(unreachable) == 0 {
			// an error although no consulted lookup failed
			return pbt.Failf("C17:spurious-error", "%s: SizeInfo failed with %v but no consulted lookup failed; lookups=%s", desc, err, renderCalls(calls))
		}
	}
	if remote >= 2 {
		o.NonTrivial()
	}
	if remote == len(c.Placement) {
		o.Label("all-remote")
	} else if remote > 0 {
		o.Label("mixed-local-remote")
	}
	if anyFaulty {
		o.Label("failure-injected")
		if err != nil {
			o.Label("failure-consulted")
		}
	}
	o.Note(desc)
	return nil
}

func idxOf(id uint64) int { return int((id - 7001) / 13) }

func renderCalls(cs []*lite.InfoCall) string {
	s := ""
	for _, c := range cs {
		s += fmt.Sprintf("[p=%s to=%d len=%d err=%v]", gen.IDHex(c.Partition), idxOf(c.To), c.Len, c.Err)
	}
	return s
}

func TestSizeInfo(t *testing.T) {
	pbt.Run(t, pbt.Prop[Case]{
		ID: "C17", Name: "TestSizeInfo",
		Rule:  "rapid-generated layer-B0 clusters (1-4 simulated nodes with the repository's Dataset objects, 1-8 partitions with generated replica sets, 0-9 items per partition, generated asking node, per-node PartitionInfo behaviour ok/delay/error (plain or gRPC status Canceled/Unknown/DeadlineExceeded/Internal/Unavailable)/hang via in-memory DataManager client shims that call the real server; in a quarter of the cases 1-2 partitions have moved off one of their hosts - the former host learned it through its catalogue, as a snapshot or as log entries, the asker still has the old replica list - and were written to afterwards); oracle: on success (len,bytes) equal the sums over partitions of the harness-known sizes, whatever lookups happened; an error is accepted only if some consulted lookup failed or some peer is unreachable (no client, no address); non-trivial = >=2 partitions remote to the asking node; distinct = distinct case JSON",
		Gen:   genCase,
		Check: check,
	})
}
