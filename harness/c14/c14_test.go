// C14 — the dataset catalogue is replicated consistently and survives restart (layer A: state machine).
package c14

import (
	"fmt"
	"os"
	"sort"
	"strings"
	"testing"

	"github.com/marekgalovic/anndb/storage"
	"pgregory.net/rapid"
	"verifharness/catalog"
	"verifharness/pbt"
)

func TestMain(m *testing.M) { pbt.Main(m) }

const self = uint64(1)

var members = []uint64{self, 5001, 5002}

type Case struct {
	Ops  []catalog.Op `json:"ops"`
	Cut  int          `json:"cut"`
	Used int          `json:"used"` // restore target applied Ops[:Used%..] before (0 = fresh)
	// Pre: earlier cut points at which the SAME source manager already took a snapshot (a long-running node snapshots
	// its catalogue again and again)
	Pre []int `json:"pre,omitempty"`
}

func genCase(t *rapid.T) Case {
	nodeSet := rapid.SampledFrom([][]uint64{{5001}, {5002}, {5001, 5002}, {5002, 5001}, {}, {self}})
	op := rapid.Custom(func(t *rapid.T) catalog.Op {
		k := rapid.SampledFrom([]int{catalog.OpCreate, catalog.OpCreate, catalog.OpCreate, catalog.OpDelete, catalog.OpDelete, catalog.OpAddNode, catalog.OpRemoveNode}).Draw(t, "k")
		o := catalog.Op{K: k, Slot: rapid.IntRange(0, 5).Draw(t, "slot")}
		switch k {
		case catalog.OpCreate:
			o.Dim = rapid.IntRange(1, 8).Draw(t, "dim")
			o.Space = rapid.IntRange(0, 2).Draw(t, "space")
			o.Nodes = rapid.SliceOfN(nodeSet, 1, 5).Draw(t, "nodes")
			o.Gen = rapid.IntRange(0, 3).Draw(t, "gen")
		case catalog.OpAddNode, catalog.OpRemoveNode:
			o.Part = rapid.IntRange(0, 4).Draw(t, "part")
			o.Node = rapid.SampledFrom([]uint64{5001, 5002, 5003, self}).Draw(t, "node")
		}
		return o
	})
	return Case{Ops: rapid.SliceOfN(op, 2, pbt.Pick(16, 40)).Draw(t, "ops"), Cut: rapid.IntRange(0, 100).Draw(t, "cut"),
		Used: rapid.IntRange(0, 100).Draw(t, "used") * rapid.IntRange(0, 1).Draw(t, "useUsed"),
		Pre:  rapid.SliceOfN(rapid.IntRange(0, 100), 0, 2).Draw(t, "pre")}
}

func applyRange(r *catalog.Replica, ops []catalog.Op, lo, hi int, models []catalog.Model) *pbt.Failure {
	for i := lo; i < hi; i++ {
		if err := r.G.Process(catalog.Marshal(ops[i], i, models[i])); err != nil {
			return pbt.Failf("C14:apply-error", "replica %s: applying entry %d %s returned %v (fatal in the ready loop)", r.Name, i, ops[i], err)
		}
	}
	return nil
}

func compare(r *catalog.Replica, m catalog.Model, when string) *pbt.Failure {
	got, err := catalog.RenderReplica(r)
	if err != nil {
		return pbt.Failf("C14:list-error", "replica %s %s: List returned %v", r.Name, when, err)
	}
	if want := catalog.RenderModel(m); got != want {
		return pbt.Failf("C14:catalogue-differs", "replica %s %s lists\n%s\nexpected\n%s", r.Name, when, got, want)
	}
	for slot := 0; slot < 8; slot++ {
		id := catalog.DatasetID(slot)
		_, err := r.DM.Get(id)
		if _, ok := m[id]; ok && err != nil {
			return pbt.Failf("C14:get", "replica %s %s: Get(ds%d) = %v, dataset exists", r.Name, when, slot, err)
		} else if !ok && err != storage.DatasetNotFoundErr {
			return pbt.Failf("C14:get-deleted", "replica %s %s: Get(ds%d) = %v, expected DatasetNotFoundErr", r.Name, when, slot, err)
		}
	}
	return nil
}

func check(c Case, o *pbt.Obs) *pbt.Failure {
	n := len(c.Ops)
	cut := c.Cut % (n + 1)
	// model before each entry and at the end
	// dataset ids are fresh random UUIDs in reality: a create of an id that existed before cannot occur
	// ... and the allocator proposes adding a node only to a partition that does not list it yet
	ever := map[int]bool{}
	var ops []catalog.Op
	pre := catalog.Model{}
	for _, op := range c.Ops {
		if op.K == catalog.OpCreate {
			if ever[op.Slot] {
				continue
			}
			ever[op.Slot] = true
		}
		if op.K == catalog.OpAddNode {
			if d, ok := pre[catalog.DatasetID(op.Slot)]; ok && len(d.Parts) > 0 {
				dup := false
				for _, nd := range d.Nodes[op.Part%len(d.Parts)] {
					if nd == op.Node {
						dup = true
					}
				}
				if dup {
					continue
				}
			}
		}
		catalog.ApplyModel(pre, op)
		ops = append(ops, op)
	}
	c.Ops = ops
	n = len(c.Ops)
	cut = c.Cut % (n + 1)
	models := make([]catalog.Model, n+1)
	m := catalog.Model{}
	for i, op := range c.Ops {
		models[i] = cloneModel(m)
		catalog.ApplyModel(m, op)
	}
	models[n] = cloneModel(m)

	var reps []*catalog.Replica
	mk := func(name string) *catalog.Replica {
		r := catalog.NewReplica(name, self, members)
		reps = append(reps, r)
		return r
	}
	defer func() {
		before := catalog.Leaked
		for _, r := range reps {
			r.Close()
		}
		if catalog.Leaked > before {
			o.Label("raft-groups-still-running-at-teardown")
			if os.Getenv("VERIF_DEBUG_LEAK") != "" {
				fmt.Printf("LEAKCASE cut=%d used=%d ops=%v\n", c.Cut, c.Used, c.Ops)
			}
		}
	}()
	r1 := mk("R1(all)")
	for i := 0; i < n; i++ {
		if f := applyRange(r1, c.Ops, i, i+1, models); f != nil {
			return f
		}
		if f := compare(r1, models[i+1], fmt.Sprintf("after entry %d %s", i, c.Ops[i])); f != nil {
			return f
		}
	}
	src := mk("R2src")
	// earlier snapshots of the same manager, in log order
	var pres []int
	for _, p := range c.Pre {
		pres = append(pres, p%(cut+1))
	}
	sort.Ints(pres)
	at := 0
	for _, p := range pres {
		if f := applyRange(src, c.Ops, at, p, models); f != nil {
			return f
		}
		at = p
		if _, err := src.G.Snapshot(); err != nil {
			return pbt.Failf("C14:snapshot-error", "snapshot after %d entries returned %v", p, err)
		}
		if p < cut {
			o.Label("earlier-snapshot-by-the-same-manager")
			replicaChange := false
			for i := p; i < cut; i++ {
				if c.Ops[i].K == catalog.OpAddNode || c.Ops[i].K == catalog.OpRemoveNode {
					replicaChange = true
				}
			}
			if replicaChange {
				o.Label("replica-set-change-between-two-snapshots")
			}
		}
	}
	if f := applyRange(src, c.Ops, at, cut, models); f != nil {
		return f
	}
	snap, err := src.G.Snapshot()
	if err != nil {
		return pbt.Failf("C14:snapshot-error", "snapshot after %d entries returned %v", cut, err)
	}
	r2 := mk("R2(restored)")
	usedNote := "fresh"
	if c.Used > 0 {
		u := c.Used % (cut + 1) // a snapshot is only installed on a replica that is behind it
		if f := applyRange(r2, c.Ops, 0, u, models); f != nil {
			return f
		}
		usedNote = fmt.Sprintf("used(applied %d)", u)
		if u != cut {
			o.Label("restore-into-used")
		}
	}
	if err := r2.G.ProcessSnap(snap); err != nil {
		return pbt.Failf("C14:restore-error", "restoring the snapshot taken after %d entries into a %s manager returned %v (fatal in the ready loop)", cut, usedNote, err)
	}
	if f := compare(r2, models[cut], fmt.Sprintf("right after restoring the snapshot@%d into a %s manager", cut, usedNote)); f != nil {
		return f
	}
	if f := applyRange(r2, c.Ops, cut, n, models); f != nil {
		return f
	}
	r3 := mk("R3(replay)")
	if f := applyRange(r3, c.Ops, 0, n, models); f != nil {
		return f
	}
	for _, r := range []*catalog.Replica{r2, r3} {
		if f := compare(r, models[n], "after the whole log"); f != nil {
			return f
		}
	}
	// once the allocator is idle, exactly the partitions that list this node serve (have their raft group loaded)
	for _, r := range []*catalog.Replica{r1, r2, r3} {
		r.Flush()
		want := map[[16]byte]bool{}
		for id, d := range models[n] {
			ds, err := r.DM.Get(id)
			if err != nil {
				continue
			}
			for p := range d.Parts {
				local := false
				for _, nd := range d.Nodes[p] {
					if nd == self {
						local = true
					}
				}
				if local {
					want[d.Parts[p]] = true
				}
				if loaded := ds.VerifPartitionRaftLoaded(p); loaded != local {
					return pbt.Failf("C14:local-replica-serving", "replica %s: partition %d of %s lists nodes %v, raft loaded on this node (%d) = %v", r.Name, p, id, d.Nodes[p], self, loaded)
				}
			}
		}
		for _, g := range r.Tr.VerifGroups() {
			if !want[g.VerifId()] {
				return pbt.Failf("C14:orphan-raft-group", "replica %s: a raft group for %x is still running although no listed partition places it on this node", r.Name, g.VerifId())
			}
		}
	}
	// classification
	deleteBefore := false
	for i := 0; i < cut; i++ {
		if c.Ops[i].K == catalog.OpDelete {
			if _, ok := models[i][catalog.DatasetID(c.Ops[i].Slot)]; ok {
				deleteBefore = true
			}
		}
	}
	if deleteBefore && len(models[cut]) >= 0 && distinctDatasets(c.Ops) >= 2 {
		o.NonTrivial()
	}
	if deleteBefore {
		o.Label("effective-delete-before-cut")
	}
	var p []string
	for _, op := range c.Ops {
		p = append(p, op.String())
	}
	o.Note(fmt.Sprintf("cut=%d %s: %s", cut, usedNote, strings.Join(p, "; ")))

	return nil
}

func distinctDatasets(ops []catalog.Op) int {
	s := map[int]bool{}
	for _, o := range ops {
		if o.K == catalog.OpCreate {
			s[o.Slot] = true
		}
	}
	return len(s)
}

func cloneModel(m catalog.Model) catalog.Model {
	c := catalog.Model{}
	for id, d := range m {
		nd := &catalog.ModelDataset{Dim: d.Dim, Space: d.Space, Parts: append(d.Parts[:0:0], d.Parts...)}
		for _, ns := range d.Nodes {
			nd.Nodes = append(nd.Nodes, append([]uint64(nil), ns...))
		}
		c[id] = nd
	}
	return c
}

func TestCatalogueStateMachine(t *testing.T) {
	pbt.Run(t, pbt.Prop[Case]{
		ID: "C14", Name: "TestCatalogueStateMachine",
		Rule:    "rapid-generated catalogue logs (create with 1-5 partitions and generated replica sets / delete / add-partition-node / remove-partition-node over 8 dataset ids, each created at most once as in production where ids are fresh UUIDs; deletes and replica changes of absent or deleted ids included) applied to real DatasetManager+Allocator+Conn objects over a scripted raft.Group (the manager's own registered process/snapshot/restore functions): R1 applies every entry and is compared with the sequential catalogue model after each one (id, dimension, metric, partition ids in order, node lists; Get of deleted ids = DatasetNotFoundErr); R2 = snapshot at a cut (taken by a manager that may already have taken 0-2 snapshots at earlier cuts) restored into a fresh manager or one that applied a shorter prefix, compared at once, then the rest; R3 = replay; non-trivial = an effective delete precedes the cut and >=2 datasets were created; distinct = distinct case JSON",
		Journal: true,
		Gen:     genCase,
		Check:   check,
	})
}
