// C14, layer B: the catalogue on a simulated cluster whose nodes are wired as server.go wires them (package ctl):
// real zero groups commit what the real DatasetManager API proposes, the shared group multiplexes it, real
// allocators load the partitions' raft groups; members crash, restart, lag behind a compaction and catch up
// through zero-group snapshots.
package c14

import (
	"fmt"
	"regexp"
	"sort"
	"strings"
	"sync"
	"testing"
	"time"

	pb "github.com/marekgalovic/anndb/protobuf"
	uuid "github.com/satori/go.uuid"
	"pgregory.net/rapid"
	"verifharness/ctl"
	"verifharness/hutil"
	"verifharness/pbt"
	"verifharness/sim"
)

const (
	KCreate   = iota
	KDelete   // delete the N-th dataset ever acknowledged (mod), through member Via
	KRestart  // kill member A and start it again at once
	KDown     // kill member A; it stays down until an Up step or the end
	KUp       // start member A again if it is down
	KSnapshot // the zero group of member A takes a snapshot now (and compacts its log)
	KIsolate  // raft traffic to and from member A is lost until a Heal step or the end
	KHeal
	KTick
	KChurn     // N create+delete pairs through member Via: the zero log grows by 2N entries (a member that is away falls behind the retained log)
	KDeleteAll // every acknowledged dataset is deleted through member Via: the catalogue becomes empty
	KJoinLate  // the last member, left out when the cluster was formed (Late), joins now: allocators extend under-replicated partitions
	KRemove    // member A (not the bootstrap node) is removed from the cluster through member Via and its process stopped: allocators take it out of the partitions they lead
)

var kNames = []string{"create", "delete", "restart", "down", "up", "snapshot", "isolate", "heal", "tick", "churn", "delete-all", "join-late", "remove-member"}

type CStep struct {
	K   int `json:"k"`
	A   int `json:"a"`
	Via int `json:"via,omitempty"`
	N   int `json:"n,omitempty"`
	P   int `json:"p,omitempty"` // create: partition count
	R   int `json:"r,omitempty"` // create: replication factor
	Dim int `json:"dim,omitempty"`
	Sp  int `json:"sp,omitempty"`
}

type CCase struct {
	Members int `json:"members"`
	// Late: the last member does not join while the cluster is formed but at a join-late step of the history
	Late  bool    `json:"late,omitempty"`
	Steps []CStep `json:"steps"`
}

func (c CCase) String() string {
	var p []string
	for _, s := range c.Steps {
		p = append(p, fmt.Sprintf("%s(a=%d,via=%d,n=%d,p=%d,r=%d)", kNames[s.K], s.A, s.Via, s.N, s.P, s.R))
	}
	return fmt.Sprintf("members=%d: %s", c.Members, strings.Join(p, " "))
}

func genCCase(t *rapid.T) CCase {
	c := CCase{Members: rapid.SampledFrom([]int{1, 2, 3, 3, 3}).Draw(t, "members")}
	c.Late = c.Members >= 2 && rapid.IntRange(0, 2).Draw(t, "late") == 0
	step := rapid.Custom(func(t *rapid.T) CStep {
		k := rapid.SampledFrom([]int{KCreate, KCreate, KCreate, KDelete, KDelete, KRestart, KDown, KUp, KUp, KSnapshot, KSnapshot, KIsolate, KHeal, KTick, KJoinLate, KRemove}).Draw(t, "k")
		s := CStep{K: k, A: rapid.IntRange(0, c.Members-1).Draw(t, "a"), Via: rapid.IntRange(0, c.Members-1).Draw(t, "via")}
		switch k {
		case KCreate:
			s.P = rapid.IntRange(1, 3).Draw(t, "p")
			s.R = rapid.IntRange(1, 3).Draw(t, "r")
			s.Dim = rapid.IntRange(1, 4).Draw(t, "dim")
			s.Sp = rapid.IntRange(0, 2).Draw(t, "sp")
		case KDelete:
			s.N = rapid.IntRange(0, 7).Draw(t, "n")
		case KTick:
			s.N = rapid.SampledFrom([]int{1, 3, 12, 25}).Draw(t, "n")
		}
		return s
	})
	c.Steps = rapid.SliceOfN(step, 3, pbt.Pick(14, 28)).Draw(t, "steps")
	// every third case with three members contains the scenario "a member is away (down or isolated) while the catalogue
	// changes by more entries than the log store retains in front of a snapshot, optionally ends up empty, and the others
	// compact their logs": the member can only catch up through a zero-group snapshot
	if c.Members == 3 && rapid.IntRange(0, 2).Draw(t, "away") == 0 {
		a := rapid.IntRange(0, 2).Draw(t, "awaymember")
		via := (a + 1 + rapid.IntRange(0, 1).Draw(t, "awayvia")) % 3
		away, back := KDown, KUp
		if rapid.Bool().Draw(t, "isolated") {
			away, back = KIsolate, KHeal
		}
		sc := []CStep{{K: away, A: a}, {K: KChurn, Via: via, N: rapid.IntRange(9, 12).Draw(t, "pairs")}}
		if rapid.Bool().Draw(t, "empty") {
			sc = append(sc, CStep{K: KDeleteAll, Via: via})
		}
		for k := 0; k < 3; k++ {
			if k != a {
				sc = append(sc, CStep{K: KSnapshot, A: k})
			}
		}
		sc = append(sc, CStep{K: back, A: a}, CStep{K: KTick, N: 25})
		at := rapid.IntRange(0, len(c.Steps)).Draw(t, "awayat")
		c.Steps = append(append(append([]CStep(nil), c.Steps[:at]...), sc...), c.Steps[at:]...)
	}
	return c
}

var ctlTrap sync.Once

var blockedPat = regexp.MustCompile(`Allocator\)\.(watch|unwatch|run|runNodeChanges)|DatasetManager\)\.(process|createDataset|deleteDataset|updatePartitionNodes|processSnapshot)|sharedGroup\)\.(process|processSnapshot)|Conn\)\.(AddNode|RemoveNode|sendNodesChangeNotification)`)

// blockedControlPlane lists repository goroutines that sit in a blocking wait inside the control-plane code.
func blockedControlPlane() []string {
	buf := hutil.AllStacks()
	var out []string
	for _, g := range strings.Split(buf, "\n\n") {
		head := g
		if i := strings.Index(g, "\n"); i > 0 {
			head = g[:i]
		}
		if !strings.Contains(g, "RaftGroup).run") || !blockedPat.MatchString(g) {
			continue
		}
		if strings.Contains(head, "[chan send") || strings.Contains(head, "[chan receive") || strings.Contains(head, "[select") || strings.Contains(head, "[semacquire") || strings.Contains(head, "[sync.") {
			var fs []string
			for _, l := range strings.Split(g, "\n") {
				if m := blockedPat.FindString(l); m != "" {
					fs = append(fs, m)
				}
			}
			out = append(out, head+" "+strings.Join(fs, "<-"))
		}
	}
	sort.Strings(out)
	return out
}

type ackedDataset struct {
	id      uuid.UUID
	render  string // as acknowledged
	deleted bool   // deletion acknowledged
	unsure  bool   // a deletion was requested and not acknowledged: may or may not exist
}

// stopCase ends a case that was counted inconclusive.
var stopCase = &pbt.Failure{}

// checkCluster runs the case under a watchdog: a case that does not end is diagnosed like an unresponsive node.
func checkCluster(c CCase, o *pbt.Obs) *pbt.Failure {
	done := make(chan *pbt.Failure, 1)
	go func() { done <- runCluster(c, o) }()
	select {
	case f := <-done:
		if f == stopCase {
			return nil
		}
		return f
	case <-time.After(150 * time.Second):
		d1 := blockedControlPlane()
		time.Sleep(time.Second)
		d2 := blockedControlPlane()
		if len(d1) > 0 && fmt.Sprint(d1) == fmt.Sprint(d2) {
			return pbt.Failf("C14:catalogue-apply-blocked", "the case did not end within 150 s and a zero group's ready loop is parked inside the control plane (unchanged a second later): %v; history: %s", d2, c.String())
		}
		o.Inconclusive("case-did-not-end-within-150s")
		return nil
	}
}

func runCluster(c CCase, o *pbt.Obs) *pbt.Failure {
	ctlTrap.Do(sim.InstallFatalTrap)
	sim.TakeUnexpectedFatal()
	cl := ctl.New(c.Members)
	defer cl.Close()
	fatal := func(where string) *pbt.Failure {
		if f := sim.TakeUnexpectedFatal(); f != "" {
			return pbt.Failf("C14:fatal-in-ready-loop", "%s: log.Fatal without an injected crash: %.700s", where, f)
		}
		if st := cl.Stuck(); len(st) > 0 {
			// something no longer responds: a dead state inside the control plane, or just a slow machine?
			d1 := blockedControlPlane()
			time.Sleep(time.Second)
			d2 := blockedControlPlane()
			if len(d1) > 0 && fmt.Sprint(d1) == fmt.Sprint(d2) {
				return pbt.Failf("C14:catalogue-apply-blocked", "%s: %v; a zero group's ready loop is parked inside the control plane (unchanged a second later): %v; history: %s", where, st, d2, c.String())
			}
			o.Inconclusive("node-unresponsive-without-a-parked-control-plane")
			return stopCase
		}
		return nil
	}
	// ---- form the cluster: node 0 bootstraps, the others join through it one at a time (settled before the next) ----
	if err := cl.Start(0, true); err != nil {
		return pbt.Failf("C14:start-fails", "bootstrap node: %v", err)
	}
	cl.Nodes[0].Joined = true
	cl.Nodes[0].Zero.VerifCampaign()
	if !cl.ElectZero(400) {
		o.Inconclusive("bootstrap-node-did-not-elect-itself")
		return nil
	}
	// out: not (or no longer) a member - the late joiner before it joins, removed members for good
	out := map[int]bool{}
	removed := map[int]bool{}
	down := map[int]bool{}
	// confSettled: every member that is in lists (present) / does not list (absent) node i in its applied zero-group configuration
	confSettled := func(i int, present bool) bool {
		for r := 0; r < 1500; r++ {
			ok := true
			for k := 0; k < c.Members; k++ {
				if out[k] || (k == i && !present) {
					continue
				}
				if down[k] {
					continue
				}
				nodes := cl.Nodes[k].Zero.VerifConfNodes()
				if nodes == nil {
					// no membership change applied by this incarnation yet: what its store gives at the applied index
					nodes = cl.Nodes[k].Mon.MembersAt(cl.Nodes[k].Zero.VerifStatus().Applied)
				}
				has := false
				for _, id := range nodes {
					if id == cl.Nodes[i].Id {
						has = true
					}
				}
				if has != present {
					ok = false
				}
			}
			if ok {
				return true
			}
			cl.Tick(1)
			time.Sleep(100 * time.Microsecond)
		}
		return false
	}
	join := func(i int) (bool, *pbt.Failure) {
		if err := cl.Start(i, false); err != nil {
			return false, pbt.Failf("C14:start-fails", "node %d: %v", i, err)
		}
		if err := cl.WhileTicking(3000, func() error { return cl.Join(i, 0) }); err != nil {
			o.Inconclusive("join-did-not-complete")
			return false, nil
		}
		cl.Nodes[i].Joined = true
		delete(out, i)
		if !confSettled(i, true) {
			o.Inconclusive("join-did-not-settle")
			return false, nil
		}
		return true, nil
	}
	for i := 1; i < c.Members; i++ {
		out[i] = true // not a member yet
	}
	for i := 1; i < c.Members; i++ {
		if c.Late && i == c.Members-1 {
			continue
		}
		if ok, f := join(i); !ok {
			return f
		}
	}
	if f := fatal("cluster formation"); f != nil {
		return f
	}
	// ---- generated history ----
	var acked []*ackedDataset
	unackedCreates := 0
	isolated := map[int]bool{}
	liveVia := func(want int) int {
		for k := 0; k < c.Members; k++ {
			if cand := (want + k) % c.Members; !down[cand] && !out[cand] {
				return cand
			}
		}
		return -1
	}
	calm := func() bool { // every member is up and connected
		return len(down) == 0 && len(isolated) == 0
	}
	restartedAfterSnapshot, caughtUpBySnapshot, deletesAcked := 0, 0, 0
	start := func(i int) *pbt.Failure {
		if err := cl.Start(i, i == 0); err != nil {
			return pbt.Failf("C14:restart-fails", "node %d does not come up again: %v", i, err)
		}
		return nil
	}
	for si, s := range c.Steps {
		where := fmt.Sprintf("step %d %s(a=%d via=%d)", si, kNames[s.K], s.A, s.Via)
		a := s.A % c.Members
		if out[a] && (s.K == KRestart || s.K == KDown || s.K == KUp || s.K == KSnapshot || s.K == KIsolate) {
			continue
		}
		switch s.K {
		case KJoinLate:
			late := c.Members - 1
			if !c.Late || !out[late] || removed[late] || !calm() {
				continue
			}
			if ok, f := join(late); !ok {
				return f
			}
			o.Label("member-joined-while-datasets-exist")
		case KRemove:
			if a == 0 || out[a] || !calm() {
				continue
			}
			via := liveVia(s.Via)
			if via == a {
				via = 0
			}
			if err := cl.WhileTicking(3000, func() error { return cl.Nodes[via].NM.RemoveNode(cl.Nodes[a].Id) }); err != nil {
				o.Inconclusive("removal-did-not-complete")
				return stopCase
			}
			if !confSettled(a, false) {
				o.Inconclusive("removal-did-not-settle")
				return stopCase
			}
			// the removed node's process is stopped for good
			if !cl.Kill(a) {
				if b := blockedControlPlane(); len(b) > 0 {
					return pbt.Failf("C14:catalogue-apply-blocked", "%s: a ready loop of the removed node %d did not exit within 2 s after the node was killed; it is parked in %v", where, a, b)
				}
				o.Inconclusive("killed-node-did-not-stop")
				return stopCase
			}
			out[a], removed[a] = true, true
			o.Label("member-removed")
		case KCreate:
			via := liveVia(s.Via)
			if via < 0 {
				continue
			}
			meta, err := cl.Create(via, &pb.Dataset{Dimension: uint32(s.Dim), Space: pb.Space(s.Sp), PartitionCount: uint32(s.P), ReplicationFactor: uint32(s.R)}, 300*time.Millisecond, 4000)
			if err == nil {
				id, _ := uuid.FromBytes(meta.GetId())
				acked = append(acked, &ackedDataset{id: id, render: ctl.RenderDataset(meta)})
				o.Label("create-acknowledged")
				if len(meta.GetPartitions()) != s.P {
					return pbt.Failf("C14:partition-count", "%s: acknowledged dataset has %d partitions, %d were requested", where, len(meta.GetPartitions()), s.P)
				}
			} else {
				unackedCreates++
				o.Label("create-not-acknowledged")
			}
		case KDelete:
			via := liveVia(s.Via)
			if via < 0 || len(acked) == 0 {
				continue
			}
			d := acked[s.N%len(acked)]
			if d.deleted {
				continue
			}
			if err := cl.Delete(via, d.id, 300*time.Millisecond, 4000); err == nil {
				d.deleted = true
				deletesAcked++
				o.Label("delete-acknowledged")
			} else {
				d.unsure = true
				o.Label("delete-not-acknowledged")
			}
		case KChurn:
			via := liveVia(s.Via)
			if via < 0 {
				continue
			}
			for k := 0; k < s.N; k++ {
				meta, err := cl.Create(via, &pb.Dataset{Dimension: 2, PartitionCount: 1, ReplicationFactor: 1}, 300*time.Millisecond, 4000)
				if err != nil {
					unackedCreates++
					continue
				}
				id, _ := uuid.FromBytes(meta.GetId())
				d := &ackedDataset{id: id, render: ctl.RenderDataset(meta)}
				acked = append(acked, d)
				if err := cl.Delete(via, id, 300*time.Millisecond, 4000); err == nil {
					d.deleted = true
					deletesAcked++
				} else {
					d.unsure = true
				}
			}
			o.Label("churn")
		case KDeleteAll:
			via := liveVia(s.Via)
			if via < 0 {
				continue
			}
			for _, d := range acked {
				if d.deleted {
					continue
				}
				if err := cl.Delete(via, d.id, 300*time.Millisecond, 4000); err == nil {
					d.deleted = true
					deletesAcked++
				} else {
					d.unsure = true
				}
			}
			o.Label("delete-all")
		case KRestart, KDown:
			if down[a] {
				continue
			}
			snap, _ := cl.Nodes[a].Mon.Snapshot()
			if !cl.Kill(a) {
				if b := blockedControlPlane(); len(b) > 0 {
					return pbt.Failf("C14:catalogue-apply-blocked", "%s: a ready loop of node %d did not exit within 2 s after the node was killed; it is parked in %v", where, a, b)
				}
				o.Inconclusive("killed-node-did-not-stop")
				return nil
			}
			time.Sleep(200 * time.Microsecond)
			if s.K == KRestart {
				if f := start(a); f != nil {
					return f
				}
				if snap.Metadata.Index > 0 {
					restartedAfterSnapshot++
					o.Label("restart-after-zero-group-compaction")
				}
				o.Label("restart")
			} else {
				down[a] = true
				o.Label("member-down-for-a-while")
			}
		case KUp:
			if !down[a] {
				continue
			}
			if f := start(a); f != nil {
				return f
			}
			delete(down, a)
		case KSnapshot:
			if !down[a] {
				cl.Nodes[a].Zero.VerifSnapshotNow()
				o.Label("zero-group-snapshot")
			}
		case KIsolate:
			if c.Members < 3 || len(isolated) > 0 {
				continue // a majority must remain connected
			}
			for k := 0; k < c.Members; k++ {
				if k != a {
					cl.Net.SetDown(cl.Nodes[a].Id, cl.Nodes[k].Id, true)
					cl.Net.SetDown(cl.Nodes[k].Id, cl.Nodes[a].Id, true)
				}
			}
			isolated[a] = true
			o.Label("member-isolated")
		case KHeal:
			cl.Net.HealAll()
			isolated = map[int]bool{}
		case KTick:
			cl.Tick(s.N)
		}
		time.Sleep(200 * time.Microsecond)
		cl.Tick(1)
		if f := fatal(where); f != nil {
			return f
		}
	}
	// ---- quiescence: heal, bring every member up, let everything commit and apply ----
	cl.Net.HealAll()
	for i := 0; i < c.Members; i++ {
		if down[i] && !out[i] {
			if f := start(i); f != nil {
				return f
			}
		}
	}
	var act []int // the members at the end
	for i := 0; i < c.Members; i++ {
		if !out[i] {
			act = append(act, i)
		}
	}
	if !cl.ElectZero(1500) {
		o.Inconclusive("no-zero-leader-after-healing")
		return nil
	}
	// every live member's catalogue must become equal to every other's and stay so
	var renders []string
	stable := 0
	deadline := time.Now().Add(8 * time.Second)
	for stable < 6 && time.Now().Before(deadline) {
		cl.Tick(1)
		time.Sleep(150 * time.Microsecond)
		renders = renders[:0]
		same, applying := true, false
		for k, i := range act {
			renders = append(renders, cl.Render(i))
			if renders[k] != renders[0] {
				same = false
			}
			if st := cl.Nodes[i].Zero.VerifStatus(); st.Applied != st.Commit {
				applying = true
			}
		}
		lead := cl.ZeroLeader()
		if lead >= 0 {
			lst := cl.Nodes[lead].Zero.VerifStatus()
			for _, i := range act {
				if st := cl.Nodes[i].Zero.VerifStatus(); st.Commit != lst.Commit {
					applying = true
				}
			}
		} else {
			applying = true
		}
		if same && !applying {
			stable++
		} else {
			stable = 0
		}
	}
	if f := fatal("after healing"); f != nil {
		return f
	}
	for _, i := range act {
		if sn, err := cl.Nodes[i].Mon.Snapshot(); err == nil && sn.Metadata.Index > 0 {
			for _, k := range cl.Nodes[i].Mon.KindsCopy() {
				if k == sim.WriteSnapshot {
					caughtUpBySnapshot++
					o.Label("member-installed-a-received-zero-group-snapshot")
					break
				}
			}
		}
	}
	if stable < 6 {
		d1 := blockedControlPlane()
		time.Sleep(time.Second)
		d2 := blockedControlPlane()
		if len(d1) > 0 && fmt.Sprint(d1) == fmt.Sprint(d2) {
			return pbt.Failf("C14:catalogue-apply-blocked", "the members' catalogues did not converge within 8 s after healing and a zero group's ready loop is parked inside the control plane (unchanged a second later): %v; history: %s", d2, c.String())
		}
		applying := false
		for _, i := range act {
			if st := cl.Nodes[i].Zero.VerifStatus(); st.Applied != st.Commit {
				applying = true
			}
		}
		lead := cl.ZeroLeader()
		allCommitted := lead >= 0
		if lead >= 0 {
			lst := cl.Nodes[lead].Zero.VerifStatus()
			for _, i := range act {
				if st := cl.Nodes[i].Zero.VerifStatus(); st.Commit != lst.Commit || st.Applied != lst.Applied {
					allCommitted = false
				}
			}
		}
		if !applying && allCommitted {
			// every member has applied the same log position and still they list different catalogues
			var v []string
			for k, r := range renders {
				v = append(v, fmt.Sprintf("node%d{%s}", act[k], strings.ReplaceAll(r, "\n", " ; ")))
			}
			return pbt.Failf("C14:catalogue-differs-between-members", "all members have applied the zero group's log up to the same index and list different catalogues: %s; history: %s", strings.Join(v, " | "), c.String())
		}
		o.Inconclusive("catalogues-did-not-converge-within-bound")
		return nil
	}
	// ---- the converged catalogue against the acknowledged history ----
	listed := map[string]string{} // id -> rendered line
	for _, l := range strings.Split(renders[0], "\n") {
		if l != "" {
			listed[strings.SplitN(l, " ", 2)[0]] = l
		}
	}
	known := 0
	for _, d := range acked {
		line, ok := listed[d.id.String()]
		switch {
		case d.deleted && ok:
			return pbt.Failf("C14:deleted-dataset-listed", "dataset %s whose deletion was acknowledged is listed by every member after healing and restart: %s; history: %s", d.id, line, c.String())
		case !d.deleted && !d.unsure && !ok:
			return pbt.Failf("C14:acknowledged-create-missing", "dataset %s whose creation was acknowledged (and that was never deleted) is listed by no member; history: %s", d.id, c.String())
		}
		if ok {
			known++
			// id, dimension, space and the partition ids in order are what was acknowledged (replica sets may have been
			// extended by the allocators, identically on every member)
			strip := regexp.MustCompile(`\[[0-9 ]*\] `)
			if strip.ReplaceAllString(line, " ") != strip.ReplaceAllString(d.render, " ") {
				return pbt.Failf("C14:catalogue-differs-from-acknowledged", "dataset %s is listed as %q, it was acknowledged as %q", d.id, line, d.render)
			}
		}
	}
	if extra := len(listed) - known; extra > unackedCreates {
		return pbt.Failf("C14:unknown-dataset-listed", "%d listed datasets were never acknowledged, only %d creations were left unacknowledged; catalogue: %s", extra, unackedCreates, strings.ReplaceAll(renders[0], "\n", " ; "))
	}
	// ---- exactly the partitions of listed datasets that name a node are served by it ----
	var serveDiff string
	for try := 0; try < 400; try++ {
		serveDiff = ""
		for _, i := range act {
			if serveDiff != "" {
				break
			}
			n := cl.Nodes[i]
			want := map[uuid.UUID]bool{}
			ds, _ := n.DM.List(nil, false)
			for _, m := range ds {
				for _, p := range m.GetPartitions() {
					for _, id := range p.GetNodeIds() {
						if id == n.Id {
							pid, _ := uuid.FromBytes(p.GetId())
							want[pid] = true
						}
					}
				}
			}
			got := map[uuid.UUID]bool{}
			for _, g := range cl.Groups(i) {
				if id := uuid.UUID(g.VerifId()); id != uuid.Nil {
					got[id] = true
				}
			}
			for id := range want {
				if !got[id] {
					serveDiff = fmt.Sprintf("node %d does not serve partition %s of a listed dataset that names it as a replica", i, id)
				}
			}
			for id := range got {
				if !want[id] {
					serveDiff = fmt.Sprintf("node %d still runs the raft group of partition %s, which belongs to no listed dataset that names the node", i, id)
				}
			}
		}
		if serveDiff == "" {
			break
		}
		cl.Tick(1)
		time.Sleep(500 * time.Microsecond)
	}
	if serveDiff != "" {
		return pbt.Failf("C14:serving-differs-from-catalogue", "%s (still so 400 ticks after the catalogues converged); history: %s", serveDiff, c.String())
	}
	if f := fatal("final checks"); f != nil {
		return f
	}
	if c.Members >= 2 && deletesAcked > 0 && (restartedAfterSnapshot > 0 || caughtUpBySnapshot > 0) {
		o.NonTrivial()
	}
	o.Labelf("members=%d", c.Members)
	o.Note(c.String())
	return nil
}

func TestCatalogueOnCluster(t *testing.T) {
	pbt.Run(t, pbt.Prop[CCase]{
		ID: "C14", Name: "TestCatalogueOnCluster",
		Rule:    "rapid-generated histories on 1-3 simulated nodes wired like server.go (real Conn, RaftTransport, zero RaftGroup over a Badger log store, shared group, NodesManager, Allocator, DatasetManager as the 'datasets' consumer; in-memory raft message shims; node 0 bootstraps, the others join through it): create (1-3 partitions, replication 1-3) and delete through the DatasetManager API of any live member, kill+restart of a member, members that stay down for a while, zero-group snapshot+compaction on any member, isolation of one member (it lags and may have to catch up through a snapshot), a member that joins only during the history and members that are removed from the cluster (so that the allocators propose replica-set changes, committed by the real zero groups), logical ticks; then heal, start everybody, wait (bounded) until every member has applied the same zero-log position; oracle: all members list the same catalogue (ids, dimension, space, partition ids in order, replica lists), every acknowledged and not deleted dataset is listed as acknowledged, no dataset whose deletion was acknowledged is listed, no more unknown datasets than unacknowledged creations, every node runs exactly the raft groups of the partitions of listed datasets that name it, no log.Fatal in a ready loop, a killed node's ready loops exit; members that applied the same index but list different catalogues, or a ready loop parked inside the control plane, are violations, any other non-convergence is counted inconclusive; non-trivial = >=2 members, an acknowledged delete, and a member that restarted after a compaction or installed a received snapshot; distinct = distinct case JSON",
		Gen:     genCCase,
		Check:   checkCluster,
		Journal: true,
	})
}
