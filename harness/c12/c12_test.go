// C12 — no request can crash a node or poison the replicated log (layer C: a real server process).
package c12

import (
	"bytes"
	"context"
	"fmt"
	"google.golang.org/grpc/codes"
	"google.golang.org/grpc/status"
	"io"
	"math"
	"os"
	"os/exec"
	"path/filepath"
	"regexp"
	"sort"
	"strconv"
	"strings"
	"sync/atomic"
	"syscall"
	"testing"
	"time"

	pb "github.com/marekgalovic/anndb/protobuf"
	"google.golang.org/grpc"
	"pgregory.net/rapid"
	"verifharness/gen"
	"verifharness/pbt"
)

var serverBin string

func TestMain(m *testing.M) {
	// the server under test: cmd/anndb of the current working tree, with the verif tag (logical-time pumps);
	// the driver builds it together with this test binary, a direct `go test` run builds it here
	if b := os.Getenv("VERIF_SERVER_BIN"); b != "" {
		if _, err := os.Stat(b); err == nil {
			serverBin = b
			pbt.Main(m)
			return
		}
	}
	dir, err := os.MkdirTemp(scratchRoot(), "c12bin")
	if err != nil {
		panic(err)
	}
	serverBin = filepath.Join(dir, "anndb-verif")
	cmd := exec.Command("go", "build", "-tags", "verif", "-o", serverBin, "github.com/marekgalovic/anndb/cmd/anndb")
	cmd.Dir = harnessDir()
	if out, err := cmd.CombinedOutput(); err != nil {
		fmt.Printf("cannot build the server: %v\n%s\n", err, out)
		os.Exit(3)
	}
	pbt.Cleanup = func() { os.RemoveAll(dir) }
	pbt.Main(m)
}

func harnessDir() string {
	if d := os.Getenv("VERIF_HARNESS_DIR"); d != "" {
		return d
	}
	return "/verif/harness"
}

func scratchRoot() string {
	if st, err := os.Stat("/dev/shm"); err == nil && st.IsDir() {
		return "/dev/shm"
	}
	return os.TempDir()
}

// ---- request grammar ----------------------------------------------------------

const (
	RCreate = iota
	RDelete
	RGetDataset
	RDatasetSize
	RList
	RInsert
	RUpdate
	RRemove
	RBatchInsert
	RBatchUpdate
	RBatchRemove
	RPartitionBatchInsert
	RPartitionBatchUpdate
	RPartitionBatchRemove
	RPartitionInfo
	RSearch
	RSearchPartitions
	RListNodes
	RLoadInfo
	nRPC
)

var rpcNames = []string{"Create", "Delete", "GetDataset", "GetDatasetSize", "List", "Insert", "Update", "Remove", "BatchInsert", "BatchUpdate", "BatchRemove",
	"PartitionBatchInsert", "PartitionBatchUpdate", "PartitionBatchRemove", "PartitionInfo", "Search", "SearchPartitions", "ListNodes", "LoadInfo"}

type Req struct {
	RPC     int  `json:"rpc"`
	Ds      int  `json:"ds"`    // dataset selector: 0..3 = k-th created dataset (mod), 4 unknown uuid, 5 empty, 6 15 bytes, 7 17 bytes
	Part    int  `json:"part"`  // partition selector: 0..2 = k-th partition of the dataset, 3 unknown, 4 malformed
	Id      int  `json:"id"`    // item id selector: 0..5 pool, 6 empty, 7 15 bytes, 8 17 bytes, 9 a pool id as 36-byte text, 10 as 32 hex digits
	Vec     int  `json:"vec"`   // 0 right dimension, 1 empty, 2 dim+1, 3 NaN, 4 +Inf, 5 huge magnitudes, 6 dim-1, 7 right dimension, non-round components, all such vectors are scaled copies of one direction (valid)
	Meta    int  `json:"meta"`  // 0 none, 1 small, 2 empty key, 3 256-byte key, 4 70000-byte value, 5 300 keys, 6 128-rune/256-byte key, 7 32768-rune/65536-byte value, 8 at the limits (255-byte key, 65535-byte value), 9 multi-byte at the limits
	K       int  `json:"k"`     // search k selector
	Batch   int  `json:"batch"` // batch size selector
	Dup     bool `json:"dup"`   // batch contains duplicates
	Dim     int  `json:"dim"`   // create: dimension selector
	P       int  `json:"p"`     // create: partition count selector
	R       int  `json:"r"`     // create: replication factor selector
	Space   int  `json:"space"`
	BadItem int  `json:"baditem"` // batch: selector of one hostile item (0 none, 1 malformed id, 2 wrong dimension, 3 empty vector, 4 nil item, 5-8 client-set level field -1 / -2 / -2^31 / 2^30, 9 hostile metadata of selector Meta)
}

var (
	kValues    = []uint32{0, 1, 2, 10, 1000000, math.MaxUint32}
	batchSizes = []int{0, 1, 3, 100, 101, 1000}
	dimValues  = []uint32{3, 3, 3, 1, 0, 2048}
	partValues = []uint32{1, 2, 3, 0, 64}
	replValues = []uint32{1, 1, 2, 0, 9}
	hostileDs  = map[int]bool{4: true, 5: true, 6: true, 7: true}
)

func (r Req) hostile() bool {
	return hostileDs[r.Ds] || r.Id >= 6 || (r.Vec != 0 && r.Vec != 7) || r.Meta >= 2 || r.K == 0 || r.K >= 4 || r.Batch == 0 || r.Batch >= 4 || r.BadItem != 0 || r.Part >= 3 ||
		(r.RPC == RCreate && (r.Dim >= 4 || r.P >= 3 || r.R >= 3))
}

type Case struct {
	Reqs         []Req `json:"reqs"`
	SnapshotPump bool  `json:"snapshot_pump"` // the server compacts its logs every 40 ms (verif env pump)
	// Torn: the kill arrived while the store was appending a record to its write-ahead (value) log: the newest log file
	// ends with this many bytes of an unfinished record (0 = the kill fell between two writes)
	Torn int `json:"torn,omitempty"`
}

func genCase(t *rapid.T) Case {
	req := rapid.Custom(func(t *rapid.T) Req {
		rpc := rapid.SampledFrom([]int{RCreate, RCreate, RDelete, RGetDataset, RDatasetSize, RList, RInsert, RInsert, RInsert, RUpdate, RRemove, RBatchInsert, RBatchInsert, RBatchUpdate, RBatchRemove,
			RPartitionBatchInsert, RPartitionBatchUpdate, RPartitionBatchRemove, RPartitionInfo, RSearch, RSearch, RSearchPartitions, RListNodes, RLoadInfo}).Draw(t, "rpc")
		// mostly valid fields, one or two hostile ones
		pickMostly0 := func(n int, label string) int {
			if rapid.IntRange(0, 4).Draw(t, label+"?") == 0 {
				return rapid.IntRange(0, n-1).Draw(t, label)
			}
			return 0
		}
		return Req{RPC: rpc,
			Ds:      []int{0, 0, 0, 1, 2, 4, 5, 6, 7}[pickMostly0(9, "ds")],
			Part:    pickMostly0(5, "part"),
			Id:      rapid.IntRange(0, 5).Draw(t, "id") + 0*pickMostly0(1, "x"),
			Vec:     []int{0, 1, 2, 3, 4, 5, 6, 7, 7, 7}[pickMostly0(10, "vec")],
			Meta:    pickMostly0(10, "meta"),
			K:       []int{2, 1, 3, 0, 4, 5}[pickMostly0(6, "k")],
			Batch:   []int{2, 1, 3, 0, 4, 5}[pickMostly0(6, "batch")],
			Dup:     rapid.IntRange(0, 4).Draw(t, "dup") == 0,
			Dim:     pickMostly0(6, "dim"),
			P:       pickMostly0(5, "p"),
			R:       pickMostly0(5, "r"),
			Space:   rapid.IntRange(0, 2).Draw(t, "space"),
			BadItem: pickMostly0(10, "baditem"),
		}
	})
	c := Case{Reqs: rapid.SliceOfN(req, 5, pbt.Pick(24, 40)).Draw(t, "reqs"), SnapshotPump: rapid.IntRange(0, 1).Draw(t, "pump") == 0}
	// hostile item ids sometimes
	for i := range c.Reqs {
		if rapid.IntRange(0, 9).Draw(t, "badid") == 0 {
			c.Reqs[i].Id = rapid.IntRange(6, 10).Draw(t, "idsel")
		}
	}
	// one case in three: the kill falls inside the append of a log record
	if rapid.IntRange(0, 2).Draw(t, "torn?") == 0 {
		c.Torn = rapid.SampledFrom([]int{1, 2, 7, 16, 17, 40, 200}).Draw(t, "torn")
	}
	return c
}

// ---- server process -------------------------------------------------------------

var portCounter int32

func nextPort() int {
	shard, _ := strconv.Atoi(os.Getenv("VERIF_SHARD"))
	// below the ephemeral range (32768+), disjoint per shard
	base := 10000 + (shard%16)*1200 + (os.Getpid()%3)*400
	return base + int(atomic.AddInt32(&portCounter, 1))%400
}

type server struct {
	cmd     *exec.Cmd
	port    int
	dataDir string
	logPath string
	exited  chan struct{}
	pump    bool
}

func startServer(dataDir string, port int, pump bool) (*server, error) {
	s := &server{port: port, dataDir: dataDir, logPath: filepath.Join(dataDir, fmt.Sprintf("server.%d.log", time.Now().UnixNano())), exited: make(chan struct{}), pump: pump}
	lf, err := os.Create(s.logPath)
	if err != nil {
		return nil, err
	}
	s.cmd = exec.Command(serverBin, "-port", strconv.Itoa(port), "-data-dir", dataDir, "-node-id", "7")
	s.cmd.Env = append(os.Environ(), "VERIF_EXTRA_TICK_MS=3")
	if pump {
		s.cmd.Env = append(s.cmd.Env, "VERIF_SNAPSHOT_EVERY_MS=40")
	}
	s.cmd.Stdout, s.cmd.Stderr = lf, lf
	s.cmd.SysProcAttr = &syscall.SysProcAttr{Pdeathsig: syscall.SIGKILL}
	if err := s.cmd.Start(); err != nil {
		return nil, err
	}
	go func() { s.cmd.Wait(); lf.Close(); close(s.exited) }()
	return s, nil
}

func (s *server) alive() bool {
	select {
	case <-s.exited:
		return false
	default:
		return true
	}
}

func (s *server) kill9() {
	if s.alive() {
		s.cmd.Process.Kill()
		<-s.exited
	}
}

var repoFrame = regexp.MustCompile(`(?m)^(github\.com/marekgalovic/anndb[^\s(]*(?:\(\*?\w+\))?[\w.]*)\(`)

// deathReason extracts the panic / fatal line and the first repository function from the server log.
func (s *server) deathReason() (key, text string) {
	b, _ := os.ReadFile(s.logPath)
	txt := string(b)
	idx := strings.LastIndex(txt, "panic:")
	if i := strings.LastIndex(txt, "level=fatal"); i > idx {
		idx = i
	}
	if i := strings.LastIndex(txt, "fatal error:"); i > idx {
		idx = i
	}
	if idx < 0 {
		if len(txt) > 1500 {
			txt = txt[len(txt)-1500:]
		}
		return "exit-without-trace", txt
	}
	tail := txt[idx:]
	line := tail
	if i := strings.Index(line, "\n"); i > 0 {
		line = line[:i]
	}
	fn := "unknown"
	if m := repoFrame.FindStringSubmatch(tail); m != nil {
		fn = strings.TrimPrefix(m[1], "github.com/marekgalovic/anndb/")
	} else if strings.Contains(line, "level=fatal") {
		fn = "log.Fatal"
	}
	if len(tail) > 700 {
		tail = tail[:700]
	}
	return fn, line + " || " + strings.ReplaceAll(tail, "\n", " | ")
}

type client struct {
	conn *grpc.ClientConn
	dm   pb.DatasetManagerClient
	data pb.DataManagerClient
	srch pb.SearchClient
	nm   pb.NodesManagerClient
}

func dial(port int) (*client, error) {
	conn, err := grpc.Dial(fmt.Sprintf("127.0.0.1:%d", port), grpc.WithInsecure(), grpc.WithDefaultCallOptions(grpc.MaxCallRecvMsgSize(64<<20), grpc.MaxCallSendMsgSize(64<<20)))
	if err != nil {
		return nil, err
	}
	return &client{conn, pb.NewDatasetManagerClient(conn), pb.NewDataManagerClient(conn), pb.NewSearchClient(conn), pb.NewNodesManagerClient(conn)}, nil
}

// ping: List must answer within the deadline.
func (c *client) ping(d time.Duration) error {
	ctx, cancel := context.WithTimeout(context.Background(), d)
	defer cancel()
	st, err := c.dm.List(ctx, &pb.ListDatasetsRequest{})
	if err != nil {
		return err
	}
	for {
		if _, err := st.Recv(); err == io.EOF {
			return nil
		} else if err != nil {
			return err
		}
	}
}

func waitReady(s *server, c *client, d time.Duration) error {
	deadline := time.Now().Add(d)
	var last error
	for time.Now().Before(deadline) {
		if !s.alive() {
			return fmt.Errorf("process exited")
		}
		if last = c.ping(500 * time.Millisecond); last == nil {
			return nil
		}
		time.Sleep(20 * time.Millisecond)
	}
	return fmt.Errorf("not answering: %v", last)
}

// ---- request construction ---------------------------------------------------------

type known struct {
	ds    [][]byte   // created dataset ids
	parts [][][]byte // their partition ids
	dims  []uint32
}

func (k *known) dsBytes(sel int) ([]byte, int) {
	switch sel {
	case 4:
		return gen.ID(4242).Bytes(), -1
	case 5:
		return nil, -1
	case 6:
		return bytes.Repeat([]byte{7}, 15), -1
	case 7:
		return bytes.Repeat([]byte{7}, 17), -1
	}
	if len(k.ds) == 0 {
		return gen.ID(4243).Bytes(), -1
	}
	i := sel % len(k.ds)
	return k.ds[i], i
}

func (k *known) partBytes(dsIdx, sel int) []byte {
	switch sel {
	case 3:
		return gen.ID(5151).Bytes()
	case 4:
		return []byte{1, 2, 3}
	}
	if dsIdx < 0 || len(k.parts[dsIdx]) == 0 {
		return gen.ID(5152).Bytes()
	}
	return k.parts[dsIdx][sel%len(k.parts[dsIdx])]
}

func idBytes(sel int) []byte {
	switch sel {
	case 6:
		return nil
	case 7:
		return bytes.Repeat([]byte{9}, 15)
	case 8:
		return bytes.Repeat([]byte{9}, 17)
	case 9:
		return []byte(gen.ID(60).String()) // a pool id in its 36-byte canonical text form
	case 10:
		return []byte(strings.ToUpper(strings.ReplaceAll(gen.ID(61).String(), "-", ""))) // 32 hex digits
	}
	return gen.ID(60 + sel).Bytes()
}

func vector(sel int, dim uint32, salt int) []float32 {
	n := int(dim)
	switch sel {
	case 1:
		return nil
	case 2:
		n = int(dim) + 1
	case 6:
		n = int(dim) - 1
		if n < 0 {
			n = 0
		}
	}
	v := make([]float32, n)
	for i := range v {
		v[i] = float32((salt*7+i*3)%11) - 5
		if sel == 7 {
			// one direction with non-round components, scaled per salt: exactly parallel vectors of different length
			v[i] = (0.731 + 1.187*float32(i%5) - 0.913*float32(i%3)) * (0.37 + 0.61*float32(salt%9))
		}
		switch sel {
		case 3:
			v[i] = float32(math.NaN())
		case 4:
			v[i] = float32(math.Inf(1))
		case 5:
			v[i] = 3e38
		}
	}
	return v
}

func metadata(sel int) map[string]string {
	switch sel {
	case 1:
		return map[string]string{"a": "1", "b": "2"}
	case 2:
		return map[string]string{"": "empty-key"}
	case 3:
		return map[string]string{strings.Repeat("k", 256): "v"}
	case 4:
		return map[string]string{"big": strings.Repeat("v", 70000)}
	case 5:
		m := map[string]string{}
		for i := 0; i < 300; i++ {
			m[fmt.Sprintf("k%d", i)] = "v"
		}
		return m
	case 6:
		return map[string]string{strings.Repeat("\u00e9", 128): "v"} // 128 characters, 256 bytes
	case 7:
		return map[string]string{"big": strings.Repeat("\u00e9", 32768)} // 32768 characters, 65536 bytes
	case 8:
		return map[string]string{strings.Repeat("k", 255): strings.Repeat("v", 65535)}
	case 9:
		return map[string]string{strings.Repeat("\u00e9", 127) + "k": strings.Repeat("\u00e9", 32767) + "v"} // 255 and 65535 bytes
	}
	return nil
}

func (r Req) batchItems(dim uint32) []*pb.BatchItem {
	n := batchSizes[r.Batch%len(batchSizes)]
	items := make([]*pb.BatchItem, 0, n)
	for i := 0; i < n; i++ {
		idSel := (r.Id + i) % 6
		if r.Dup && i%2 == 1 {
			idSel = r.Id % 6
		}
		id := idBytes(idSel)
		if n > 6 {
			id = gen.ID(1000 + i).Bytes()
			if r.Dup && i%5 == 1 {
				id = gen.ID(1000).Bytes()
			}
		}
		items = append(items, &pb.BatchItem{Id: id, Value: vector(0, dim, i), Metadata: metadata(r.Meta % 2)})
	}
	if len(items) > 0 {
		j := len(items) / 2
		switch r.BadItem {
		case 1:
			items[j].Id = idBytes(7 + r.Id%4)
		case 2:
			items[j].Value = vector(2, dim, 1)
		case 3:
			items[j].Value = nil
		case 4:
			items[j] = nil
		case 5:
			items[j].Level = -1
		case 6:
			items[j].Level = -2
		case 7:
			items[j].Level = math.MinInt32
		case 8:
			items[j].Level = 1 << 30
		case 9:
			items[j].Metadata = metadata(r.Meta)
		}
		if r.Id >= 6 && items[0] != nil {
			items[0].Id = idBytes(r.Id)
		}
		if r.Vec == 7 {
			for i, it := range items {
				if it != nil && !(i == j && (r.BadItem == 2 || r.BadItem == 3)) {
					it.Value = vector(7, dim, i)
				}
			}
		} else if r.Vec != 0 && items[len(items)-1] != nil {
			items[len(items)-1].Value = vector(r.Vec, dim, 2)
		}
	}
	return items
}

// issue sends one request; every outcome (value or error) is acceptable, only the server's survival is judged.
func issue(c *client, k *known, r Req) string {
	ctx, cancel := context.WithTimeout(context.Background(), 8*time.Second)
	defer cancel()
	ds, di := k.dsBytes(r.Ds)
	dim := uint32(3)
	if di >= 0 {
		dim = k.dims[di]
	}
	var err error
	switch r.RPC {
	case RCreate:
		req := &pb.Dataset{Dimension: dimValues[r.Dim%len(dimValues)], Space: pb.Space(r.Space), PartitionCount: partValues[r.P%len(partValues)], ReplicationFactor: replValues[r.R%len(replValues)]}
		var out *pb.Dataset
		out, err = c.dm.Create(ctx, req)
		if err == nil && out != nil && len(k.ds) < 4 {
			k.ds = append(k.ds, out.GetId())
			var ps [][]byte
			for _, p := range out.GetPartitions() {
				ps = append(ps, p.GetId())
			}
			k.parts = append(k.parts, ps)
			k.dims = append(k.dims, out.GetDimension())
		}
	case RDelete:
		_, err = c.dm.Delete(ctx, &pb.UUIDRequest{Id: ds})
		if err == nil && di >= 0 {
			k.ds = append(k.ds[:di], k.ds[di+1:]...)
			k.parts = append(k.parts[:di], k.parts[di+1:]...)
			k.dims = append(k.dims[:di], k.dims[di+1:]...)
		}
	case RGetDataset:
		_, err = c.dm.Get(ctx, &pb.GetDatasetRequest{DatasetId: ds, WithSize: r.Dup})
	case RDatasetSize:
		_, err = c.dm.GetDatasetSize(ctx, &pb.GetDatasetRequest{DatasetId: ds})
	case RList:
		var st pb.DatasetManager_ListClient
		st, err = c.dm.List(ctx, &pb.ListDatasetsRequest{WithSize: r.Dup})
		for err == nil {
			_, err = st.Recv()
		}
	case RInsert:
		_, err = c.data.Insert(ctx, &pb.InsertRequest{DatasetId: ds, Id: idBytes(r.Id), Value: vector(r.Vec, dim, r.Id), Metadata: metadata(r.Meta)})
	case RUpdate:
		_, err = c.data.Update(ctx, &pb.UpdateRequest{DatasetId: ds, Id: idBytes(r.Id), Value: vector(r.Vec, dim, r.Id+1), Metadata: metadata(r.Meta)})
	case RRemove:
		_, err = c.data.Remove(ctx, &pb.RemoveRequest{DatasetId: ds, Id: idBytes(r.Id)})
	case RBatchInsert:
		_, err = c.data.BatchInsert(ctx, &pb.BatchRequest{DatasetId: ds, Items: r.batchItems(dim)})
	case RBatchUpdate:
		_, err = c.data.BatchUpdate(ctx, &pb.BatchRequest{DatasetId: ds, Items: r.batchItems(dim)})
	case RBatchRemove:
		_, err = c.data.BatchRemove(ctx, &pb.BatchRequest{DatasetId: ds, Items: r.batchItems(dim)})
	case RPartitionBatchInsert:
		_, err = c.data.PartitionBatchInsert(ctx, &pb.PartitionBatchRequest{DatasetId: ds, PartitionId: k.partBytes(di, r.Part), Items: r.batchItems(dim)})
	case RPartitionBatchUpdate:
		_, err = c.data.PartitionBatchUpdate(ctx, &pb.PartitionBatchRequest{DatasetId: ds, PartitionId: k.partBytes(di, r.Part), Items: r.batchItems(dim)})
	case RPartitionBatchRemove:
		_, err = c.data.PartitionBatchRemove(ctx, &pb.PartitionBatchRequest{DatasetId: ds, PartitionId: k.partBytes(di, r.Part), Items: r.batchItems(dim)})
	case RPartitionInfo:
		_, err = c.data.PartitionInfo(ctx, &pb.PartitionInfoRequest{DatasetId: ds, PartitionId: k.partBytes(di, r.Part)})
	case RSearch:
		var st pb.Search_SearchClient
		st, err = c.srch.Search(ctx, &pb.SearchRequest{DatasetId: ds, Query: vector(r.Vec, dim, 3), K: kValues[r.K%len(kValues)]})
		for err == nil {
			_, err = st.Recv()
		}
	case RSearchPartitions:
		var st pb.Search_SearchPartitionsClient
		pids := [][]byte{k.partBytes(di, r.Part)}
		if r.Dup {
			pids = append(pids, k.partBytes(di, r.Part+1))
		}
		st, err = c.srch.SearchPartitions(ctx, &pb.SearchPartitionsRequest{DatasetId: ds, PartitionIds: pids, Query: vector(r.Vec, dim, 3), K: kValues[r.K%len(kValues)]})
		for err == nil {
			_, err = st.Recv()
		}
	case RListNodes:
		var st pb.NodesManager_ListNodesClient
		st, err = c.nm.ListNodes(ctx, &pb.EmptyMessage{})
		for err == nil {
			_, err = st.Recv()
		}
	case RLoadInfo:
		_, err = c.nm.LoadInfo(ctx, &pb.EmptyMessage{})
	}
	if err == nil || err == io.EOF {
		return "ok"
	}
	return err.Error()
}

func (r Req) String() string {
	return fmt.Sprintf("%s{ds=%d part=%d id=%d vec=%d meta=%d k=%d batch=%d dup=%v dim=%d p=%d r=%d bad=%d}", rpcNames[r.RPC], r.Ds, r.Part, r.Id, r.Vec, r.Meta, r.K, r.Batch, r.Dup, r.Dim, r.P, r.R, r.BadItem)
}

func check(c Case, o *pbt.Obs) *pbt.Failure {
	dataDir, err := os.MkdirTemp(scratchRoot(), "c12data")
	if err != nil {
		panic(err)
	}
	defer os.RemoveAll(dataDir)
	port := nextPort()
	s, err := startServer(dataDir, port, c.SnapshotPump)
	if err != nil {
		panic(err)
	}
	defer func() { s.kill9() }()
	cl, err := dial(port)
	if err != nil {
		panic(err)
	}
	defer func() { cl.conn.Close() }()
	if err := waitReady(s, cl, 15*time.Second); err != nil {
		o.Inconclusive("server-did-not-start: " + err.Error())
		return nil
	}
	// a first valid dataset so that hostile requests meet real state (needs the zero group's leader: retry briefly)
	k := &known{}
	for i := 0; i < 100 && len(k.ds) == 0; i++ {
		issue(cl, k, Req{RPC: RCreate, P: 1})
		if len(k.ds) == 0 {
			time.Sleep(20 * time.Millisecond)
		}
	}
	if len(k.ds) == 0 {
		o.Inconclusive("no-leader-for-first-create")
		return nil
	}
	// a few valid items
	for i := 0; i < 4; i++ {
		issue(cl, k, Req{RPC: RInsert, Id: i})
	}
	hostileSeen, validAfterHostile := false, false
	var trail []string
	for i, r := range c.Reqs {
		out := issue(cl, k, r)
		if len(out) > 80 {
			out = out[:80]
		}
		trail = append(trail, fmt.Sprintf("%d:%s => %s", i, r, out))
		if len(trail) > 6 {
			trail = trail[1:]
		}
		o.Label("rpc:" + rpcNames[r.RPC])
		if r.hostile() {
			hostileSeen = true
		} else if hostileSeen {
			validAfterHostile = true
		}
		if !s.alive() {
			key, why := s.deathReason()
			return pbt.Failf("C12:server-died/"+key, "the server process terminated while handling request %d %s: %s ;; last requests: %s", i, r, why, strings.Join(trail, " ;; "))
		}
		if err := cl.ping(3 * time.Second); err != nil {
			// confirm: a second, longer ping
			if !s.alive() {
				key, why := s.deathReason()
				return pbt.Failf("C12:server-died/"+key, "the server process terminated after request %d %s: %s ;; last requests: %s", i, r, why, strings.Join(trail, " ;; "))
			}
			err2 := cl.ping(10 * time.Second)
			if err2 != nil {
				// a dying process refuses connections a moment before its exit is observable
				select {
				case <-s.exited:
				case <-time.After(3 * time.Second):
				}
			}
			if !s.alive() {
				key, why := s.deathReason()
				return pbt.Failf("C12:server-died/"+key, "the server process terminated after request %d %s: %s ;; last requests: %s", i, r, why, strings.Join(trail, " ;; "))
			}
			if err2 != nil {
				return pbt.Failf("C12:server-wedged", "after request %d %s the server no longer answers List (%v, then %v) although the process is alive ;; last requests: %s", i, r, err, err2, strings.Join(trail, " ;; "))
			}
		}
	}
	// kill -9, restart on the same data directory, the server must replay and answer
	s.kill9()
	cl.conn.Close()
	if c.Torn > 0 {
		if files, _ := filepath.Glob(filepath.Join(dataDir, "anndb", "*.vlog")); len(files) > 0 {
			sort.Strings(files)
			if f, err := os.OpenFile(files[len(files)-1], os.O_APPEND|os.O_WRONLY, 0); err == nil {
				tail := make([]byte, c.Torn)
				for i := range tail {
					tail[i] = byte(37*i + c.Torn + 1)
				}
				f.Write(tail)
				f.Close()
				o.Label("restart-after-a-torn-log-record")
			}
		}
	}
	for round := 0; round < 2; round++ {
		s2, err := startServer(dataDir, port, c.SnapshotPump)
		if err != nil {
			panic(err)
		}
		s = s2
		cl, err = dial(port)
		if err != nil {
			panic(err)
		}
		if err := waitReady(s, cl, 20*time.Second); err != nil {
			if !s.alive() {
				key, why := s.deathReason()
				return pbt.Failf("C12:restart-crash/"+key, "restart %d on the data directory left by the request sequence: the server dies while starting/replaying: %s ;; last requests: %s", round+1, why, strings.Join(trail, " ;; "))
			}
			return pbt.Failf("C12:restart-wedged", "restart %d: the server does not answer List within 20 s (%v) ;; last requests: %s", round+1, err, strings.Join(trail, " ;; "))
		}
		// it must stay up through the replay of the partitions' logs as well
		time.Sleep(150 * time.Millisecond)
		if !s.alive() {
			key, why := s.deathReason()
			return pbt.Failf("C12:restart-crash/"+key, "restart %d: the server died shortly after start (log replay): %s ;; last requests: %s", round+1, why, strings.Join(trail, " ;; "))
		}
		issue(cl, k, Req{RPC: RSearch, K: 2})
		issue(cl, k, Req{RPC: RInsert, Id: 5})
		if !s.alive() {
			key, why := s.deathReason()
			return pbt.Failf("C12:restart-crash/"+key, "restart %d: the server died on the first valid requests after restart: %s", round+1, why)
		}
		// no partition may be left wedged by what the requests put into its log: a valid write into every dataset known to
		// exist is answered (with success or a definite error) within 20 s of retries
		for di := range k.ds {
			var last string
			answered := false
			for try := 0; try < 10 && !answered && s.alive(); try++ {
				ctx, cancel := context.WithTimeout(context.Background(), 2*time.Second)
				_, err := cl.data.Insert(ctx, &pb.InsertRequest{DatasetId: k.ds[di], Id: gen.ID(7000 + round).Bytes(), Value: vector(0, k.dims[di], 9)})
				cancel()
				if err == nil {
					answered = true
					break
				}
				last = err.Error()
				st, _ := status.FromError(err)
				if st.Code() != codes.DeadlineExceeded && st.Code() != codes.Unavailable && !strings.Contains(last, "deadline exceeded") && !strings.Contains(strings.ToLower(last), "raft") {
					answered = true
				}
			}
			if !s.alive() {
				key, why := s.deathReason()
				return pbt.Failf("C12:restart-crash/"+key, "restart %d: the server died on a valid write after restart: %s", round+1, why)
			}
			if !answered {
				return pbt.Failf("C12:partition-wedged-after-restart", "restart %d: a valid insert into dataset %x is not answered within 10 attempts of 2 s (last: %s) although the process is alive: a partition did not come back ;; last requests: %s", round+1, k.ds[di], last, strings.Join(trail, " ;; "))
			}
			o.Label("valid-write-after-restart-answered")
		}
		if round == 0 {
			s.kill9()
			cl.conn.Close()
		}
	}
	if hostileSeen && validAfterHostile {
		o.NonTrivial()
	}
	if c.SnapshotPump {
		o.Label("restart-with-compacted-logs")
	}
	return nil
}

func TestNoRequestKillsTheServer(t *testing.T) {
	pbt.Run(t, pbt.Prop[Case]{
		ID: "C12", Name: "TestNoRequestKillsTheServer",
		Rule:    "rapid-generated sequences of 5-24 well-typed requests over every RPC of DatasetManager, DataManager, Search (and NodesManager list/load-info) against a real server process (cmd/anndb of the working tree, verif tag for fast logical time and, in half of the cases, log compaction every 40 ms), fields drawn mostly valid with hostile values mixed in (ids of length 0/15/17, unknown/malformed dataset and partition ids, dimension 0/2048, empty / longer / shorter / NaN / Inf / huge vectors, over-long, numerous, at-the-limit and multi-byte (fewer characters than bytes) metadata, k in {0,1,10^6,2^32-1}, batch sizes 0/1/100/101/1000 with duplicates and one hostile item (malformed id, wrong dimension, empty vector, nil, client-set level field negative or huge, hostile metadata), partition / replica counts 0/64/9) after a valid dataset and items exist; oracle: after every request the process is alive and answers a List ping (3 s, confirmed with 10 s), then kill -9 (in a third of the cases the kill falls inside the append of a record to the store's write-ahead log: the newest log file ends with 1-200 bytes of an unfinished record) and two restarts on the same data directory: the server must come up, stay up through replay and answer a valid write into every dataset known to exist (success or a definite error, not a timeout) within 20 s; non-trivial = a hostile request followed by a valid one; distinct = distinct case JSON",
		Gen:     genCase,
		Check:   check,
		Journal: false,
	})
}
