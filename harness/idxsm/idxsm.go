// Package idxsm is the shared index-history machine: a generated sequence of
// insert / remove / update / save-load / search / get steps executed on a real
// index.Hnsw next to a map reference model. C01, C02, C08 (and others) enable
// the oracle groups they decide.
package idxsm

import (
	"bytes"
	"context"
	"fmt"
	"io"
	"math"
	"sort"
	"strings"

	"github.com/marekgalovic/anndb/index"
	"github.com/marekgalovic/anndb/index/space"
	amath "github.com/marekgalovic/anndb/math"
	uuid "github.com/satori/go.uuid"
	"pgregory.net/rapid"
	"verifharness/gen"
	"verifharness/pbt"
)

const (
	OpInsert = iota
	OpRemove
	OpUpdate
	OpSaveLoad
	OpSearch
	OpGet
)

var opNames = []string{"insert", "remove", "update", "saveload", "search", "get"}

type Cfg struct {
	M       int  `json:"m"`
	Ef      int  `json:"ef"`
	EfC     int  `json:"efc"`
	Heur    bool `json:"heur"`
	Ext     bool `json:"ext"`
	Keep    bool `json:"keep"`
	Metric  int  `json:"metric"` // 0 euclidean, 1 manhattan, 2 cosine
	Dim     int  `json:"dim"`
	Default bool `json:"default"` // ignore M/Ef/EfC/Heur: repository defaults
}

type Step struct {
	Op     int       `json:"op"`
	Id     int       `json:"id"`
	Vec    []float32 `json:"vec,omitempty"`
	Meta   int       `json:"meta,omitempty"`
	Level  int       `json:"level,omitempty"`
	K      int       `json:"k,omitempty"`
	Header bool      `json:"hdr,omitempty"`
	Used   bool      `json:"used,omitempty"`  // load into a used index
	// Alien (with Header): the receiving index was built for another dimension, metric and M/ef/efConstruction - the header describes the contents
	Alien bool `json:"alien,omitempty"`
	Chunk  []int     `json:"chunk,omitempty"` // reader fragment sizes (cyclic); empty = whole buffer
	Aim    int       `json:"aim,omitempty"`   // remove: 1 = whichever item is the entry point at that moment, 2 = the entry point's nearest live neighbour on its highest linked layer (Id if there is none)
}

type History struct {
	Cfg   Cfg    `json:"cfg"`
	Steps []Step `json:"steps"`
}

func (h History) String() string {
	var b strings.Builder
	fmt.Fprintf(&b, "cfg=%+v;", h.Cfg)
	for _, s := range h.Steps {
		switch s.Op {
		case OpInsert:
			fmt.Fprintf(&b, " insert(#%d,%v,meta%d,L%d)", s.Id, s.Vec, s.Meta, s.Level)
		case OpUpdate:
			fmt.Fprintf(&b, " update(#%d,%v,meta%d)", s.Id, s.Vec, s.Meta)
		case OpRemove:
			fmt.Fprintf(&b, " remove(#%d,aim=%d)", s.Id, s.Aim)
		case OpSaveLoad:
			fmt.Fprintf(&b, " saveload(hdr=%v,used=%v,alien=%v,chunk=%v)", s.Header, s.Used, s.Alien, s.Chunk)
		case OpSearch:
			fmt.Fprintf(&b, " search(%v,k=%d)", s.Vec, s.K)
		case OpGet:
			fmt.Fprintf(&b, " get(#%d)", s.Id)
		}
	}
	return b.String()
}

// GenOpts shapes the generator for a particular property.
type GenOpts struct {
	MaxIds   int
	MaxSteps int
	MinSteps int
	MaxDim   int
	Weights  [6]int // per op kind
	Default  bool   // only default configs (partition path)
	NoChunk  bool
	Boundary bool // metadata at the snapshot format's length limits now and then
	Tall     bool // a quarter of the histories use tiny fan-out (M 1-2) and mostly multi-layer items: many layers with pruned, one-directional links
}

func GenCfg(maxDim int, onlyDefault bool) *rapid.Generator[Cfg] {
	return rapid.Custom(func(t *rapid.T) Cfg {
		c := Cfg{
			Metric: rapid.IntRange(0, 2).Draw(t, "metric"),
			Dim:    rapid.IntRange(1, maxDim).Draw(t, "dim"),
		}
		if onlyDefault || rapid.IntRange(0, 9).Draw(t, "dflt") == 0 {
			c.Default = true
			return c
		}
		c.M = rapid.SampledFrom([]int{1, 2, 2, 3, 3, 4, 4, 8, 16}).Draw(t, "m")
		c.Ef = rapid.IntRange(1, 32).Draw(t, "ef")
		c.EfC = rapid.SampledFrom([]int{1, 2, 3, 4, 8, 16, 32, 200}).Draw(t, "efc")
		c.Heur = rapid.Bool().Draw(t, "heur")
		if c.Heur {
			c.Ext = rapid.Bool().Draw(t, "ext")
			c.Keep = rapid.Bool().Draw(t, "keep")
		}
		return c
	})
}

func Gen(o GenOpts) *rapid.Generator[History] {
	return rapid.Custom(func(t *rapid.T) History {
		cfg := GenCfg(o.MaxDim, o.Default).Draw(t, "cfg")
		nIds := rapid.IntRange(2, o.MaxIds).Draw(t, "nids")
		level := gen.Level()
		if o.Tall && !o.Default && rapid.IntRange(0, 3).Draw(t, "tall") == 0 {
			cfg.Default = false
			cfg.M = rapid.SampledFrom([]int{1, 1, 2}).Draw(t, "tallm")
			if cfg.Ef == 0 {
				cfg.Ef, cfg.EfC = 8, 8
			}
			level = rapid.SampledFrom([]int{0, 1, 1, 1, 2, 2, 2, 3})
		}
		var kinds []int
		for k, w := range o.Weights {
			for i := 0; i < w; i++ {
				kinds = append(kinds, k)
			}
		}
		vec := gen.Vector(cfg.Dim, cfg.Metric == 2)
		step := rapid.Custom(func(t *rapid.T) Step {
			s := Step{Op: rapid.SampledFrom(kinds).Draw(t, "op")}
			switch s.Op {
			case OpInsert:
				s.Id = rapid.IntRange(0, nIds-1).Draw(t, "id")
				s.Vec = vec.Draw(t, "vec")
				s.Meta = rapid.IntRange(0, len(gen.MetaShapes)-1).Draw(t, "meta")
				if o.Boundary && rapid.IntRange(0, 19).Draw(t, "boundary") == 0 {
					s.Meta = len(gen.MetaShapes) + rapid.IntRange(0, len(gen.BoundaryMetaShapes)-1).Draw(t, "bmeta")
				}
				s.Level = level.Draw(t, "level")
			case OpUpdate:
				s.Id = rapid.IntRange(0, nIds-1).Draw(t, "id")
				s.Vec = vec.Draw(t, "vec")
				s.Meta = rapid.IntRange(0, len(gen.MetaShapes)-1).Draw(t, "meta")
			case OpRemove, OpGet:
				s.Id = rapid.IntRange(0, nIds-1).Draw(t, "id")
				if s.Op == OpRemove {
					// entry-point hand-over is the delicate part of Remove: aim at the entry point now and then
					s.Aim = rapid.SampledFrom([]int{0, 0, 0, 0, 1, 1, 2, 2}).Draw(t, "aim")
				}
			case OpSearch:
				s.Vec = vec.Draw(t, "q")
				s.K = rapid.SampledFrom([]int{0, 1, 1, 2, 3, 5, 10, 2*nIds + 2}).Draw(t, "k")
			case OpSaveLoad:
				s.Header = rapid.Bool().Draw(t, "hdr")
				s.Used = rapid.Bool().Draw(t, "used")
				s.Alien = s.Header && rapid.Bool().Draw(t, "alien")
				if !o.NoChunk && rapid.Bool().Draw(t, "chunked") {
					s.Chunk = rapid.SliceOfN(rapid.SampledFrom([]int{1, 1, 2, 3, 5, 7, 16, 64, 1000}), 1, 6).Draw(t, "chunk")
				}
			}
			return s
		})
		return History{Cfg: cfg, Steps: rapid.SliceOfN(step, o.MinSteps, o.MaxSteps).Draw(t, "steps")}
	})
}

// Oracles selects which groups of checks run.
type Oracles struct {
	Search    bool // C01 validity predicate on every search
	Map       bool // C02 faithful-map + counters after every step
	RoundTrip bool // C08 dump equality around every save/load
	Struct    bool // structural invariants after every mutating step
}

func NewSpace(metric int) space.Space {
	switch metric {
	case 1:
		return space.NewManhattan()
	case 2:
		return space.NewCosine()
	}
	return space.NewEuclidean()
}

func Options(c Cfg) []index.HnswOption {
	if c.Default {
		return nil
	}
	o := []index.HnswOption{index.HnswM(c.M), index.HnswEf(c.Ef), index.HnswEfConstruction(c.EfC)}
	if c.Heur {
		o = append(o, index.HnswSearchAlgorithm(index.HnswSearchHeuristic), index.HnswHeuristicExtendCandidates(c.Ext), index.HnswHeuristicKeepPruned(c.Keep))
	}
	return o
}

func NewIndex(c Cfg) *index.Hnsw {
	return index.NewHnsw(uint(c.Dim), NewSpace(c.Metric), Options(c)...)
}

type Item struct {
	Vec   []float32
	Meta  map[string]string
	Level int
}

type Model map[uuid.UUID]*Item

func MergeMeta(old, upd map[string]string) map[string]string {
	m := map[string]string{}
	for k, v := range upd {
		m[k] = v
	}
	for k, v := range old {
		if _, ok := m[k]; !ok {
			m[k] = v
		}
	}
	return m
}

func DataBytes(m Model, dim int) uint64 {
	var n uint64
	for _, it := range m {
		n += 16 + 4*uint64(dim)
		for k, v := range it.Meta {
			n += uint64(len(k) + len(v))
		}
	}
	return n
}

// chunkReader fragments reads; never returns 0 bytes without error.
type chunkReader struct {
	r     io.Reader
	sizes []int
	i     int
	frag  bool
}

func (c *chunkReader) Read(p []byte) (int, error) {
	if len(c.sizes) == 0 || len(p) == 0 {
		return c.r.Read(p)
	}
	n := c.sizes[c.i%len(c.sizes)]
	c.i++
	if n < len(p) {
		c.frag = true
		p = p[:n]
	}
	return c.r.Read(p)
}

// CheckSearch is C01's validity predicate for one search result.
func CheckSearch(res index.SearchResult, m Model, sp space.Space, q []float32, k int, where string) *pbt.Failure {
	if len(res) > k {
		return pbt.Failf("C01:more-than-k", "%s: %d results for k=%d", where, len(res), k)
	}
	if len(m) > 0 && k >= 1 && len(res) == 0 {
		return pbt.Failf("C01:empty-result-on-nonempty", "%s: empty result, collection holds %d items, k=%d", where, len(m), k)
	}
	seen := map[uuid.UUID]bool{}
	for i, r := range res {
		it, ok := m[r.Id]
		if !ok {
			return pbt.Failf("C01:returned-not-live", "%s: result[%d] id %s is not stored (removed or never inserted)", where, i, gen.IDHex(r.Id))
		}
		if seen[r.Id] {
			return pbt.Failf("C01:duplicate-id", "%s: id %s returned twice", where, gen.IDHex(r.Id))
		}
		seen[r.Id] = true
		if !gen.MetaEqual(map[string]string(r.Metadata), it.Meta) {
			return pbt.Failf("C01:stale-metadata", "%s: id %s metadata %s, current is %s", where, gen.IDHex(r.Id), gen.MetaString(r.Metadata), gen.MetaString(it.Meta))
		}
		want := sp.Distance(q, it.Vec)
		if !closeF(r.Score, want) {
			return pbt.Failf("C01:wrong-score", "%s: id %s score %g, distance(query,current vector)=%g", where, gen.IDHex(r.Id), r.Score, want)
		}
		if i > 0 && res[i-1].Score > r.Score {
			return pbt.Failf("C01:not-sorted", "%s: scores not ascending at %d: %g > %g", where, i, res[i-1].Score, r.Score)
		}
	}
	return nil
}

func closeF(a, b float32) bool {
	if a == b || (a != a && b != b) {
		return true
	}
	d := math.Abs(float64(a) - float64(b))
	return d <= 1e-5*math.Max(1, math.Abs(float64(b)))
}

// Invariants checks structural facts on a dump; returns descriptions of broken ones.
func Invariants(d *index.VerifDump, sp space.Space) []string {
	var bad []string
	if len(d.Vertices) > 0 {
		if !d.HasEntry {
			bad = append(bad, "non-empty index has no entry point")
		} else if d.EntryDeleted || !d.EntryStored {
			bad = append(bad, "entry point is a removed vertex")
		}
	}
	vec := map[uuid.UUID][]float32{}
	for _, v := range d.Vertices {
		vec[v.Id] = v.Vector
	}
	for _, v := range d.Vertices {
		if v.Deleted {
			bad = append(bad, fmt.Sprintf("stored vertex %s carries a tombstone", gen.IDHex(v.Id)))
		}
		for l, es := range v.Edges {
			for _, e := range es {
				if e.ToDeleted || !e.ToStored {
					continue // dangling link to a tombstone: legal, skipped by traversal
				}
				// (a self-link, which heuristic pruning with extendCandidates can
				// produce, wastes a slot but breaks no listed property: not judged)
				if w := sp.Distance(v.Vector, vec[e.To]); !closeF(e.Distance, w) {
					bad = append(bad, fmt.Sprintf("cached distance %g on link %s->%s (level %d) differs from true %g", e.Distance, gen.IDHex(v.Id), gen.IDHex(e.To), l, w))
				}
			}
		}
	}
	return bad
}

type Exec struct {
	H   History
	Or  Oracles
	Obs *pbt.Obs

	Idx   *index.Hnsw
	Sp    space.Space
	Model Model

	removedAny, entryRemoved, entryUpdated, afterSaveLoad, dangling bool
}

func pointerBound(d *index.VerifDump) float64 {
	maxLevel := 10
	if d.HasEntry && d.EntryLevel > maxLevel {
		maxLevel = d.EntryLevel
	}
	return float64(d.Config.MMax0*12+24) + float64(maxLevel)*float64(d.Config.MMax*12+24)
}

// checkMap is C02's oracle after a step.
func (e *Exec) checkMap(where string, touched uuid.UUID) *pbt.Failure {
	if l := e.Idx.Len(); l != len(e.Model) {
		return pbt.Failf("C02:len", "%s: Len()=%d, live ids=%d", where, l, len(e.Model))
	}
	// touched id
	v, err := e.Idx.Get(touched)
	if it, ok := e.Model[touched]; ok {
		if err != nil {
			return pbt.Failf("C02:get-missing", "%s: Get(%s) = %v, model holds it", where, gen.IDHex(touched), err)
		}
		if !gen.BitsEqual(v, it.Vec) {
			return pbt.Failf("C02:get-vector", "%s: Get(%s) = %v, stored %v", where, gen.IDHex(touched), v, it.Vec)
		}
		meta, lvl, err := e.Idx.VerifVertexMeta(touched)
		if err != nil || !gen.MetaEqual(map[string]string(meta), it.Meta) {
			return pbt.Failf("C02:get-metadata", "%s: metadata of %s = %s (err %v), expected %s", where, gen.IDHex(touched), gen.MetaString(meta), err, gen.MetaString(it.Meta))
		}
		if lvl != it.Level {
			return pbt.Failf("C02:level", "%s: level of %s = %d, expected %d", where, gen.IDHex(touched), lvl, it.Level)
		}
	} else if err != index.ItemNotFoundError {
		return pbt.Failf("C02:get-absent", "%s: Get(%s) on absent id = (%v, %v), want ItemNotFoundError", where, gen.IDHex(touched), v, err)
	}
	d := e.Idx.VerifDump()
	data := DataBytes(e.Model, e.H.Cfg.Dim)
	if d.RawBytesSize != data {
		return pbt.Failf("C02:bytes-counter", "%s: data byte counter %d, live items account for %d", where, d.RawBytesSize, data)
	}
	bs := e.Idx.BytesSize()
	hi := float64(data) + float64(len(e.Model))*pointerBound(d)
	if bs < data || float64(bs) > hi+1 || bs >= 1<<62 {
		return pbt.Failf("C02:bytes-size", "%s: BytesSize()=%d outside [%d, %.0f] for %d items", where, bs, data, hi, len(e.Model))
	}
	if len(e.Model) == 0 && bs != 0 {
		return pbt.Failf("C02:bytes-size", "%s: empty index reports %d bytes", where, bs)
	}
	return nil
}

// fullCompare: every model item retrievable, nothing else stored.
func (e *Exec) fullCompare(where string) *pbt.Failure {
	d := e.Idx.VerifDump()
	if len(d.Vertices) != len(e.Model) {
		return pbt.Failf("C02:contents", "%s: index stores %d vertices, model %d", where, len(d.Vertices), len(e.Model))
	}
	for _, v := range d.Vertices {
		it, ok := e.Model[v.Id]
		if !ok {
			return pbt.Failf("C02:contents", "%s: index stores %s which the model does not hold", where, gen.IDHex(v.Id))
		}
		if !gen.BitsEqual(v.Vector, it.Vec) || !gen.MetaEqual(v.Metadata, it.Meta) {
			return pbt.Failf("C02:contents", "%s: %s stored as (%v,%s), model (%v,%s)", where, gen.IDHex(v.Id), v.Vector, gen.MetaString(v.Metadata), it.Vec, gen.MetaString(it.Meta))
		}
	}
	return nil
}

func (e *Exec) structural(where string) *pbt.Failure {
	d := e.Idx.VerifDump()
	if bad := Invariants(d, e.Sp); len(bad) > 0 {
		return pbt.Failf("C01:structure", "%s: %s", where, strings.Join(bad, "; "))
	}
	return nil
}

func (e *Exec) classify() {
	d := e.Idx.VerifDump()
	for _, v := range d.Vertices {
		for _, es := range v.Edges {
			for _, ed := range es {
				if ed.ToDeleted {
					e.dangling = true
				}
			}
		}
	}
}

// DumpsEqual compares the dump taken before Save with the one after Load.
func DumpsEqual(before, after *index.VerifDump, dim int) string {
	if len(before.Vertices) != len(after.Vertices) {
		return fmt.Sprintf("%d vertices before, %d after", len(before.Vertices), len(after.Vertices))
	}
	if before.HasEntry != after.HasEntry || (before.HasEntry && before.Entry != after.Entry) {
		return fmt.Sprintf("entry point %v/%s before, %v/%s after", before.HasEntry, gen.IDHex(before.Entry), after.HasEntry, gen.IDHex(after.Entry))
	}
	if after.HasEntry && (after.EntryDeleted || !after.EntryStored) {
		return "entry point after load is not a stored vertex"
	}
	var data uint64
	for i := range before.Vertices {
		b, a := before.Vertices[i], after.Vertices[i]
		if b.Id != a.Id {
			return fmt.Sprintf("vertex ids differ: %s vs %s", gen.IDHex(b.Id), gen.IDHex(a.Id))
		}
		if b.Level != a.Level {
			return fmt.Sprintf("level of %s: %d before, %d after", gen.IDHex(b.Id), b.Level, a.Level)
		}
		if !gen.BitsEqual(b.Vector, a.Vector) {
			return fmt.Sprintf("vector of %s: %v before, %v after", gen.IDHex(b.Id), b.Vector, a.Vector)
		}
		if !gen.MetaEqual(b.Metadata, a.Metadata) {
			return fmt.Sprintf("metadata of %s: %s before, %s after", gen.IDHex(b.Id), gen.MetaString(b.Metadata), gen.MetaString(a.Metadata))
		}
		if a.Deleted {
			return fmt.Sprintf("%s is tombstoned after load", gen.IDHex(a.Id))
		}
		data += 16 + 4*uint64(dim)
		for k, v := range a.Metadata {
			data += uint64(len(k) + len(v))
		}
		if len(b.Edges) != len(a.Edges) {
			return fmt.Sprintf("%s has %d levels before, %d after", gen.IDHex(b.Id), len(b.Edges), len(a.Edges))
		}
		for l := range b.Edges {
			var bl []index.VerifEdge
			for _, e := range b.Edges[l] {
				if !e.ToDeleted {
					bl = append(bl, e)
				}
			}
			al := a.Edges[l]
			if len(bl) != len(al) {
				return fmt.Sprintf("%s level %d: %d live links before, %d after", gen.IDHex(b.Id), l, len(bl), len(al))
			}
			for j := range bl {
				if bl[j].To != al[j].To || math.Float32bits(bl[j].Distance) != math.Float32bits(al[j].Distance) {
					return fmt.Sprintf("%s level %d link %d: (%s,%g) before, (%s,%g) after", gen.IDHex(b.Id), l, j, gen.IDHex(bl[j].To), bl[j].Distance, gen.IDHex(al[j].To), al[j].Distance)
				}
				if !al[j].ToStored || al[j].ToDeleted {
					return fmt.Sprintf("%s level %d link to %s does not point at the stored vertex after load", gen.IDHex(b.Id), l, gen.IDHex(al[j].To))
				}
			}
		}
	}
	if after.RawLen != uint64(len(after.Vertices)) {
		return fmt.Sprintf("item counter %d after load, %d vertices stored (stale counter)", after.RawLen, len(after.Vertices))
	}
	if after.RawBytesSize != data {
		return fmt.Sprintf("byte counter %d after load, items account for %d (stale counter)", after.RawBytesSize, data)
	}
	return ""
}

// UsedIndex builds a target index that already has other contents and counters.
func UsedIndex(c Cfg, n int) *index.Hnsw {
	idx := NewIndex(c)
	for i := 0; i < n; i++ {
		v := make([]float32, c.Dim)
		for j := range v {
			v[j] = float32((i+1)*(j+2)%7) + 1
		}
		idx.Insert(gen.ID(1000+i), amath.Vector(v), index.Metadata{"stale": fmt.Sprint(i)}, i%3)
	}
	return idx
}

// SaveLoad performs one save/load step; on success e.Idx is the loaded index.
func (e *Exec) SaveLoad(s Step, where string) *pbt.Failure {
	before := e.Idx.VerifDump()
	var buf bytes.Buffer
	if err := e.Idx.Save(&buf, s.Header); err != nil {
		return pbt.Failf("C08:save-error", "%s: Save returned %v on a %d-item index", where, err, len(e.Model))
	}
	raw := append([]byte(nil), buf.Bytes()...)
	var target *index.Hnsw
	tc := e.H.Cfg
	if s.Alien && s.Header {
		// (only what the header carries differs: the neighbour-selection flags are not part of it)
		tc.Dim, tc.Metric = tc.Dim%5+1, (tc.Metric+1)%3
		if !tc.Default {
			tc.M, tc.Ef, tc.EfC = tc.M%16+1, tc.Ef+3, tc.EfC+5
		}
		e.Obs.Label("header-load-into-index-of-other-shape")
	}
	if s.Used {
		target = UsedIndex(tc, 5)
		e.Obs.Label("load-into-used")
	} else {
		target = NewIndex(tc)
	}
	br := bytes.NewReader(raw)
	cr := &chunkReader{r: br, sizes: s.Chunk}
	if err := target.Load(cr, s.Header); err != nil {
		return pbt.Failf("C08:load-own-output-fails", "%s: Load of own output (%d bytes, %d items, header=%v, chunks=%v) returned %v", where, len(raw), len(e.Model), s.Header, s.Chunk, err)
	}
	if cr.frag {
		e.Obs.Label("fragmented-read")
	}
	if len(e.Model) == 0 {
		e.Obs.Label("saveload-empty")
	}
	if before.HasEntry {
		top := 0
		for _, v := range before.Vertices {
			if v.Level > top {
				top = v.Level
			}
		}
		if before.EntryLevel < top {
			e.Obs.Label("saveload-entry-point-below-top-layer")
		}
	}
	for _, it := range e.Model {
		for k, v := range it.Meta {
			if len(k) >= 255 || len(v) >= 65535 {
				e.Obs.Label("saveload-boundary-length-metadata")
			}
		}
	}
	if e.Or.RoundTrip {
		if br.Len() != 0 {
			return pbt.Failf("C08:bytes-left", "%s: %d of %d bytes left unread after Load", where, br.Len(), len(raw))
		}
		after := target.VerifDump()
		if diff := DumpsEqual(before, after, e.H.Cfg.Dim); diff != "" {
			return pbt.Failf("C08:roundtrip-differs", "%s (hdr=%v used=%v chunks=%v): %s", where, s.Header, s.Used, s.Chunk, diff)
		}
		// metamorphic: a second save of the loaded index has the same length
		var buf2 bytes.Buffer
		if err := target.Save(&buf2, s.Header); err != nil {
			return pbt.Failf("C08:save-error", "%s: second Save returned %v", where, err)
		}
		if buf2.Len() != len(raw) {
			return pbt.Failf("C08:resave-length", "%s: re-saving the loaded index gives %d bytes, original %d", where, buf2.Len(), len(raw))
		}
	}
	e.Idx = target
	e.afterSaveLoad = true
	return nil
}

// Run executes the history. Failures carry the property id in their key.
func Run(h History, or Oracles, o *pbt.Obs) *pbt.Failure {
	e := &Exec{H: h, Or: or, Obs: o, Idx: NewIndex(h.Cfg), Sp: NewSpace(h.Cfg.Metric), Model: Model{}}
	rejected, sizeChecksAfterReject := false, false
	searchesNT := 0
	for i, s := range h.Steps {
		where := fmt.Sprintf("step %d %s", i, opNames[s.Op])
		id := gen.ID(s.Id)
		if s.Op == OpRemove && s.Aim > 0 {
			if d := e.Idx.VerifDump(); d.HasEntry && d.EntryStored {
				if s.Aim == 1 {
					id = d.Entry
					o.Label("remove-aimed-at-entry-point")
				} else {
					for _, v := range d.Vertices {
						if v.Id != d.Entry {
							continue
						}
						for l := len(v.Edges) - 1; l >= 0; l-- {
							best := -1
							for j, ed := range v.Edges[l] {
								if !ed.ToDeleted && ed.ToStored && (best < 0 || ed.Distance < v.Edges[l][best].Distance) {
									best = j
								}
							}
							if best >= 0 {
								id = v.Edges[l][best].To
								o.Label("remove-aimed-at-entry-point's-top-neighbour")
								break
							}
						}
					}
				}
			}
		}
		switch s.Op {
		case OpInsert:
			_, exists := e.Model[id]
			lvl := s.Level
			if len(e.Model) == 0 {
				lvl = 0 // first item of an empty index is stored at level 0
			}
			err := e.Idx.Insert(id, amath.Vector(append([]float32(nil), s.Vec...)), index.Metadata(gen.Meta(s.Meta)), s.Level)
			if !gen.MetaFits(gen.Meta(s.Meta)) {
				// metadata the storage format cannot represent is refused, nothing changes
				if err != index.MetadataTooLargeError {
					return pbt.Failf("C08:unrepresentable-metadata-accepted", "%s: Insert with metadata beyond the format's length limits returned %v", where, err)
				}
				o.Label("insert-refused-metadata-too-large")
				rejected = true
				break
			}
			if exists {
				if or.Map && err != index.ItemAlreadyExistsError {
					return pbt.Failf("C02:insert-existing", "%s: Insert of existing %s returned %v", where, gen.IDHex(id), err)
				}
				rejected = true
			} else {
				if err != nil {
					return pbt.Failf("C02:insert-new", "%s: Insert of new %s returned %v", where, gen.IDHex(id), err)
				}
				m := gen.Meta(s.Meta)
				e.Model[id] = &Item{Vec: s.Vec, Meta: m, Level: lvl}
			}
		case OpRemove:
			_, exists := e.Model[id]
			var d *index.VerifDump
			if exists {
				d = e.Idx.VerifDump()
			}
			err := e.Idx.Remove(id)
			if exists {
				if err != nil {
					return pbt.Failf("C02:remove-existing", "%s: Remove of stored %s returned %v", where, gen.IDHex(id), err)
				}
				delete(e.Model, id)
				e.removedAny = true
				if d.HasEntry && d.Entry == id {
					e.entryRemoved = true
				}
			} else {
				if or.Map && err != index.ItemNotFoundError {
					return pbt.Failf("C02:remove-absent", "%s: Remove of absent %s returned %v", where, gen.IDHex(id), err)
				}
				rejected = true
			}
		case OpUpdate:
			// the partition's update: lookup, remove, merge old metadata, re-insert at old level
			it, exists := e.Model[id]
			meta, lvl, err := e.Idx.VerifVertexMeta(id)
			if !exists {
				if or.Map && err != index.ItemNotFoundError {
					return pbt.Failf("C02:update-absent", "%s: lookup of absent %s returned %v", where, gen.IDHex(id), err)
				}
				rejected = true
				break
			}
			if err != nil {
				return pbt.Failf("C02:get-missing", "%s: lookup of stored %s returned %v", where, gen.IDHex(id), err)
			}
			d := e.Idx.VerifDump()
			if d.HasEntry && d.Entry == id {
				e.entryUpdated = true
				e.entryRemoved = true
			}
			if err := e.Idx.Remove(id); err != nil {
				return pbt.Failf("C02:remove-existing", "%s: Remove of stored %s returned %v", where, gen.IDHex(id), err)
			}
			merged := MergeMeta(map[string]string(meta), gen.Meta(s.Meta))
			newLvl := lvl
			if len(e.Model) == 1 {
				newLvl = 0
			}
			if err := e.Idx.Insert(id, amath.Vector(append([]float32(nil), s.Vec...)), index.Metadata(merged), lvl); err != nil {
				return pbt.Failf("C02:insert-new", "%s: re-insert of %s returned %v", where, gen.IDHex(id), err)
			}
			e.Model[id] = &Item{Vec: s.Vec, Meta: MergeMeta(it.Meta, gen.Meta(s.Meta)), Level: newLvl}
			e.removedAny = true
		case OpSaveLoad:
			if f := e.SaveLoad(s, where); f != nil {
				return f
			}
		case OpSearch:
			res, err := e.Idx.Search(context.Background(), amath.Vector(s.Vec), uint(s.K))
			if err != nil {
				return pbt.Failf("C01:search-error", "%s: Search returned %v", where, err)
			}
			if or.Search {
				if f := CheckSearch(res, e.Model, e.Sp, s.Vec, s.K, where); f != nil {
					return f
				}
			}
			if len(e.Model) > 0 && e.removedAny && s.K >= 1 {
				searchesNT++
				if e.entryRemoved {
					o.Label("search-after-entry-removed")
				}
				if e.entryUpdated {
					o.Label("search-after-entry-updated")
				}
				if e.afterSaveLoad {
					o.Label("search-after-saveload")
				}
				e.classify()
				if e.dangling {
					o.Label("search-with-dangling-links")
				}
			}
		case OpGet:
			v, err := e.Idx.Get(id)
			if it, ok := e.Model[id]; ok {
				if err != nil || !gen.BitsEqual(v, it.Vec) {
					return pbt.Failf("C02:get-vector", "%s: Get(%s) = (%v,%v), stored %v", where, gen.IDHex(id), v, err, it.Vec)
				}
			} else if err != index.ItemNotFoundError {
				return pbt.Failf("C02:get-absent", "%s: Get of absent %s = (%v,%v)", where, gen.IDHex(id), v, err)
			}
		}
		if or.Map && s.Op != OpSearch {
			if f := e.checkMap(where, id); f != nil {
				return f
			}
			if rejected {
				sizeChecksAfterReject = true
			}
			if i%8 == 7 || i == len(h.Steps)-1 {
				if f := e.fullCompare(where); f != nil {
					return f
				}
			}
		}
		if or.Struct && (s.Op == OpInsert || s.Op == OpRemove || s.Op == OpUpdate || s.Op == OpSaveLoad) {
			if f := e.structural(where); f != nil {
				return f
			}
		}
	}
	if or.Search && searchesNT > 0 {
		o.NonTrivial()
	}
	if or.Map && sizeChecksAfterReject {
		o.NonTrivial()
	}
	o.Note(h.String())
	return nil
}

// SortedIds is a helper for deterministic output.
func SortedIds(m Model) []uuid.UUID {
	ids := make([]uuid.UUID, 0, len(m))
	for id := range m {
		ids = append(ids, id)
	}
	sort.Slice(ids, func(i, j int) bool { return bytes.Compare(ids[i][:], ids[j][:]) < 0 })
	return ids
}
