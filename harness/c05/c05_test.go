// C05 — raft glue keeps consensus safety under message faults and replica restarts (L1: raft-glue level).
package c05

import (
	"context"
	"fmt"
	"os"
	"runtime"
	"strings"
	"sync"
	"testing"
	"time"

	etcdRaft "github.com/coreos/etcd/raft"
	"github.com/coreos/etcd/raft/raftpb"
	badger "github.com/dgraph-io/badger/v2"
	"github.com/marekgalovic/anndb/cluster"
	"github.com/marekgalovic/anndb/storage/raft"
	"github.com/marekgalovic/anndb/storage/wal"
	"pgregory.net/rapid"
	"verifharness/gen"
	"verifharness/hutil"
	"verifharness/pbt"
	"verifharness/sim"
)

func TestMain(m *testing.M) { pbt.Main(m) }

const (
	SPropose = iota
	STick
	SPartition // cut both directions between replica A and the others listed by mask
	SHeal
	SCrash   // arm a crash at the k-th next durable write of replica A (before/after)
	SRestart // restart replica A if it is down
	SSnapshot
	SLinkTape // install a decision tape on the link A->B
	SJoin     // the leader proposes joiner A as a new member and the joiner starts with an empty peer list (partition.addNode -> loadRaft(nil))
)

var stepNames = []string{"propose", "tick", "partition", "heal", "crash", "restart", "snapshot", "link-tape", "join"}

type Step struct {
	K     int   `json:"k"`
	A     int   `json:"a"`
	B     int   `json:"b,omitempty"`
	N     int   `json:"n,omitempty"`
	After bool  `json:"after,omitempty"`
	Tape  []int `json:"tape,omitempty"`
}

type Case struct {
	Replicas int `json:"replicas"`
	// Joiners: further replicas that are not founding members; a join step adds one (conf change proposed at the
	// leader, the joiner starts without peers). Every later restart of any replica passes the member list of that
	// moment, as the product does (allocator -> partition.loadRaft(partition.nodeIds())).
	Joiners int    `json:"joiners,omitempty"`
	Steps   []Step `json:"steps"`
}

func (c Case) String() string {
	var p []string
	for _, s := range c.Steps {
		p = append(p, fmt.Sprintf("%s(a=%d,b=%d,n=%d,after=%v,tape=%v)", stepNames[s.K], s.A, s.B, s.N, s.After, s.Tape))
	}
	return fmt.Sprintf("replicas=%d: %s", c.Replicas, strings.Join(p, " "))
}

func genCase(t *rapid.T) Case {
	c := Case{Replicas: rapid.SampledFrom([]int{1, 2, 3, 3, 3, 4, 5}).Draw(t, "replicas")}
	c.Joiners = rapid.SampledFrom([]int{0, 0, 1, 2}).Draw(t, "joiners")
	if c.Replicas+c.Joiners > 5 {
		c.Joiners = 5 - c.Replicas
	}
	kinds := []int{SPropose, SPropose, SPropose, SPropose, STick, STick, STick, SPartition, SHeal, SCrash, SRestart, SRestart, SSnapshot, SLinkTape}
	if c.Joiners > 0 {
		kinds = append(kinds, SJoin, SJoin)
	}
	all := c.Replicas + c.Joiners
	step := rapid.Custom(func(t *rapid.T) Step {
		k := rapid.SampledFrom(kinds).Draw(t, "k")
		s := Step{K: k, A: rapid.IntRange(0, all-1).Draw(t, "a")}
		switch k {
		case STick:
			s.N = rapid.SampledFrom([]int{1, 2, 5, 11, 25}).Draw(t, "n")
		case SPartition:
			s.N = rapid.IntRange(1, 1<<uint(all)-1).Draw(t, "mask")
		case SCrash:
			s.N = rapid.IntRange(1, 6).Draw(t, "kth")
			s.After = rapid.Bool().Draw(t, "after")
		case SLinkTape:
			s.B = rapid.IntRange(0, all-1).Draw(t, "b")
			s.Tape = rapid.SliceOfN(rapid.SampledFrom([]int{sim.LinkDeliver, sim.LinkDeliver, sim.LinkDropError, sim.LinkDropSilent, sim.LinkDuplicate, sim.LinkDelay}), 1, 6).Draw(t, "tape")
		}
		return s
	})
	c.Steps = rapid.SliceOfN(step, 6, pbt.Pick(50, 90)).Draw(t, "steps")
	return c
}

func nodeID(i int) uint64 { return uint64(101 + i) }

type replica struct {
	i     int
	id    uint64
	db    *badger.DB
	mon   *sim.MonWAL
	group *raft.RaftGroup
	tr    *raft.RaftTransport
	up    bool
	inc   int
	// joiner: not a founding member; joined: a join step has started it (it is part of the member list from then on)
	joiner, joined bool

	mu      sync.Mutex
	applied []string // this incarnation's applied payload sequence (snapshot prefix included)
}

type world struct {
	c    Case
	net  *sim.Net
	reps []*replica
	o    *pbt.Obs

	mu        sync.Mutex
	canon     []string // canonical applied sequence (position -> payload)
	fail      *pbt.Failure
	proposals int
	seenAck   map[string]bool // payloads whose proposer saw them applied locally

	// history of the case as it ran (writes, applies, messages and what the links did with them, steps): attached to a
	// failure, because a failure that depends on the schedule does not fail again when its tape is replayed
	hmu     sync.Mutex
	history []string
	t0      time.Time
}

const historyCap = 8000

func (w *world) tracef(format string, a ...interface{}) {
	w.hmu.Lock()
	if len(w.history) < historyCap {
		w.history = append(w.history, fmt.Sprintf("%8.3fms ", float64(time.Since(w.t0).Microseconds())/1000)+fmt.Sprintf(format, a...))
	}
	w.hmu.Unlock()
}

func (w *world) dumpHistory() string {
	w.hmu.Lock()
	defer w.hmu.Unlock()
	return strings.Join(w.history, "\n")
}

// isUp: r.up, r.group, r.mon and r.inc are written by start (main goroutine) and by kill (the goroutine a crash plan
// starts) under w.mu; the main goroutine reads them through these helpers, so that it sees a replica as down only after
// kill has finished with it (a restart that overlapped kill could have had its new group killed instead of the old one).
func (w *world) isUp(r *replica) bool {
	w.mu.Lock()
	defer w.mu.Unlock()
	return r.up
}

func (w *world) canonLen() int {
	w.mu.Lock()
	defer w.mu.Unlock()
	return len(w.canon)
}

func (w *world) setFail(f *pbt.Failure) {
	w.mu.Lock()
	if w.fail == nil {
		w.fail = f
	}
	w.mu.Unlock()
}

func (w *world) failed() *pbt.Failure {
	w.mu.Lock()
	defer w.mu.Unlock()
	return w.fail
}

var groupID = gen.ID(777)

// applyFn is the state machine: append-only list, checked against the canonical sequence.
func (w *world) applyFn(r *replica, inc int) raft.ProcessFn {
	return func(data []byte) error {
		sim.Jitter()
		r.mu.Lock()
		pos := len(r.applied)
		r.applied = append(r.applied, string(data))
		r.mu.Unlock()
		w.tracef("r%d/inc%d apply %q at position %d", r.i, inc, data, pos)
		w.mu.Lock()
		defer w.mu.Unlock()
		if pos < len(w.canon) {
			if w.canon[pos] != string(data) && w.fail == nil {
				w.fail = pbt.Failf("C05:state-machine-safety", "replica %d (incarnation %d) applies %q at position %d where another replica applied %q", r.i, inc, data, pos, w.canon[pos])
			}
		} else if pos == len(w.canon) {
			w.canon = append(w.canon, string(data))
		} else if w.fail == nil {
			w.fail = pbt.Failf("C05:apply-gap", "replica %d (incarnation %d) applies position %d but only %d positions were ever applied", r.i, inc, pos, len(w.canon))
		}
		return nil
	}
}

func (w *world) start(r *replica, bootstrap bool) {
	conn, err := cluster.NewConn(r.id, fmt.Sprintf("sim:%d", r.id), "")
	if err != nil {
		panic(err)
	}
	r.tr = raft.NewTransport(r.id, fmt.Sprintf("sim:%d", r.id), conn)
	// the member list as the product's catalogue would hold it now: founding members plus joined replicas
	var peers, founding []uint64
	for _, p := range w.reps {
		if !p.joiner {
			founding = append(founding, p.id)
		}
		if !p.joiner || p.joined {
			peers = append(peers, p.id)
		}
		if p.id != r.id {
			r.tr.VerifSetPeerClient(p.id, w.net.Client(r.id, p.id))
		}
	}
	var prev *sim.Durable
	if r.mon != nil {
		d := r.mon.DurableView()
		prev = &d
	}
	mon := sim.NewMonWAL(wal.NewBadgerWAL(r.db, groupID))
	w.mu.Lock()
	r.mon = mon
	w.mu.Unlock()
	before := mon.DurableView()
	if prev != nil && !bootstrap {
		// what a fresh instance reads back from the store must be exactly what the previous incarnation made durable
		if before.Term != prev.Term || before.Vote != prev.Vote || before.Commit != prev.Commit || before.LastIndex != prev.LastIndex || before.SnapIndex != prev.SnapIndex {
			w.setFail(pbt.Failf("C05:store-differs-from-durable-after-restart", "replica %d: store reopened as term=%d vote=%d commit=%d snapshot=%d last=%d, the previous incarnation had made durable term=%d vote=%d commit=%d snapshot=%d last=%d", r.i, before.Term, before.Vote, before.Commit, before.SnapIndex, before.LastIndex, prev.Term, prev.Vote, prev.Commit, prev.SnapIndex, prev.LastIndex))
		}
		for i, t := range prev.Terms {
			if i > prev.SnapIndex && before.Terms[i] != t {
				w.setFail(pbt.Failf("C05:store-differs-from-durable-after-restart", "replica %d: entry %d reopened with term %d, durable term was %d", r.i, i, before.Terms[i], t))
			}
		}
	}
	w.mu.Lock()
	r.inc++
	inc := r.inc
	w.mu.Unlock()
	rr := r
	r.mon.OnCrash = func() { w.tracef("r%d/inc%d crash fires", rr.i, inc); w.kill(rr, inc) }
	r.mon.Trace = func(s string) { w.tracef("r%d/inc%d %s", rr.i, inc, s) }
	var nodeIds []uint64
	pristine := before.LastIndex == 0 && before.Term == 0 && before.Commit == 0 && before.Vote == 0
	if !bootstrap && pristine && !r.joiner {
		bootstrap = true // the crash came before anything was durable: the store is still pristine
	}
	switch {
	case r.joiner && r.inc == 1:
		nodeIds = nil // first start of a joiner: partition.addNode -> loadRaft(nil)
	case pristine && (r.joiner || len(peers) != len(founding)) && pbt.Open("C05:pristine-replica-restarted-after-membership-change"):
		// known finding: the product passes the member list of the moment here too, and a replica whose store is still
		// pristine bootstraps a log of its own from it - right only for a founding member while the list is still the
		// founding one. While the finding is open the harness starts such a replica the way its first start went.
		nodeIds = nil
		if !r.joiner {
			nodeIds = founding
		}
		pbt.CountExcluded("TestRaftGlueSafety", "C05:pristine-replica-restarted-after-membership-change")
	default:
		// bootstrap of a founding member, and every restart: the product always passes the member list and leaves it
		// to startRaftNode to tell a pristine store from one that holds state
		nodeIds = peers
	}
	w.tracef("r%d/inc%d start nodeIds=%v store: term=%d vote=%d commit=%d snapshot=%d last=%d", r.i, inc, nodeIds, before.Term, before.Vote, before.Commit, before.SnapIndex, before.LastIndex)
	g, err := raft.NewRaftGroup(groupID, nodeIds, r.mon, r.tr)
	if err != nil {
		panic(err)
	}
	r.mu.Lock()
	r.applied = nil
	r.mu.Unlock()
	g.RegisterProcessFn(w.applyFn(r, inc))
	g.RegisterSnapshotFn(func() ([]byte, error) {
		sim.Jitter()
		r.mu.Lock()
		defer r.mu.Unlock()
		return []byte(strings.Join(r.applied, "\x00")), nil
	})
	g.RegisterProcessSnapshotFn(func(data []byte) error {
		var list []string
		if len(data) > 0 {
			list = strings.Split(string(data), "\x00")
		}
		sim.Jitter()
		r.mu.Lock()
		r.applied = list
		r.mu.Unlock()
		w.tracef("r%d/inc%d restore snapshot %q", r.i, inc, list)
		w.mu.Lock()
		defer w.mu.Unlock()
		for i, p := range list {
			if i < len(w.canon) && w.canon[i] != p && w.fail == nil {
				w.fail = pbt.Failf("C05:state-machine-safety", "replica %d restores a snapshot whose position %d is %q, applied elsewhere as %q", r.i, i, p, w.canon[i])
			}
		}
		if len(list) > len(w.canon) {
			w.canon = append([]string(nil), list...)
		}
		return nil
	})
	if err := g.Start(); err != nil {
		w.setFail(pbt.Failf("C05:start-error", "replica %d: Start returned %v", r.i, err))
		return
	}
	w.mu.Lock()
	r.group = g
	r.up = true
	w.mu.Unlock()
	w.net.SetTarget(r.id, r.tr)
	if !bootstrap && !(r.joiner && r.inc == 1) {
		// (d) after restart: the node resumes from a term and log no older than what it had made durable
		st := g.VerifStatus()
		if st.Term < before.Term {
			w.setFail(pbt.Failf("C05:restart-term-regression", "replica %d restarted at term %d, durable term was %d", r.i, st.Term, before.Term))
		}
		if st.Term == before.Term && before.Vote != 0 && st.Vote != before.Vote {
			w.setFail(pbt.Failf("C05:restart-vote-forgotten", "replica %d restarted with vote %d in term %d, durable vote was %d", r.i, st.Vote, st.Term, before.Vote))
		}
		if st.Commit < before.Commit {
			w.setFail(pbt.Failf("C05:restart-commit-regression", "replica %d restarted with commit %d, durable commit was %d", r.i, st.Commit, before.Commit))
		}
		w.o.Label("restart-with-existing-log")
	}
}

func (w *world) kill(r *replica, inc int) {
	w.mu.Lock()
	defer w.mu.Unlock()
	if r.inc != inc || !r.up {
		return
	}
	r.up = false
	w.net.SetTarget(r.id, nil)
	r.group.VerifKill()
	w.tracef("r%d/inc%d killed", r.i, inc)
}

func (w *world) collectWalViolations() {
	for _, r := range w.reps {
		if r.mon == nil {
			continue
		}
		for _, v := range r.mon.TakeViolations() {
			w.setFail(pbt.Failf("C05:log-store-invariant", "replica %d: %s", r.i, v))
		}
	}
	// log matching on what is durable and committed: two replicas never hold different entries (terms) at a position
	// both of them have made durable as committed
	var views []sim.Durable
	var who []int
	for _, r := range w.reps {
		if r.mon != nil {
			views = append(views, r.mon.DurableView())
			who = append(who, r.i)
		}
	}
	for a := 0; a < len(views); a++ {
		for b := a + 1; b < len(views); b++ {
			hi := views[a].Commit
			if views[b].Commit < hi {
				hi = views[b].Commit
			}
			for i := hi; i > 0; i-- {
				ta, oka := views[a].Terms[i]
				tb, okb := views[b].Terms[i]
				if !oka || !okb || i <= views[a].SnapIndex || i <= views[b].SnapIndex {
					break // compacted on one side: nothing to compare below
				}
				if ta != tb {
					w.setFail(pbt.Failf("C05:committed-entries-differ", "replica %d holds an entry of term %d at index %d, replica %d one of term %d, and both have made that index durable as committed (commit %d / %d)", who[a], ta, i, who[b], tb, views[a].Commit, views[b].Commit))
					break
				}
			}
		}
	}
	if f := sim.TakeUnexpectedFatal(); f != "" {
		w.setFail(pbt.Failf("C05:fatal-in-ready-loop", "log.Fatal in the ready loop without an injected crash: %s", firstLines(f, 12)))
	}
}

func firstLines(s string, n int) string {
	l := strings.Split(s, "\n")
	if len(l) > n {
		l = l[:n]
	}
	return strings.Join(l, " | ")
}

var trapOnce sync.Once

func check(c Case, o *pbt.Obs) (failure *pbt.Failure) {
	trapOnce.Do(sim.InstallFatalTrap)
	sim.TakeUnexpectedFatal()
	w := &world{c: c, net: sim.NewNet(), o: o, seenAck: map[string]bool{}, t0: time.Now()}
	defer func() {
		if failure != nil {
			failure.History = w.dumpHistory()
		}
	}()
	w.net.OnDecision = func(from, to uint64, m raftpb.Message, dec int) {
		w.tracef("msg %s link=%s", sim.DescribeMsg(m), []string{"deliver", "drop-error", "drop-silent", "duplicate", "delay"}[dec])
	}
	for i := 0; i < c.Replicas; i++ {
		w.reps = append(w.reps, &replica{i: i, id: nodeID(i), db: hutil.MemDB()})
	}
	for i := 0; i < c.Joiners; i++ {
		w.reps = append(w.reps, &replica{i: c.Replicas + i, id: nodeID(c.Replicas + i), db: hutil.MemDB(), joiner: true})
	}
	defer func() {
		for _, r := range w.reps {
			if w.isUp(r) {
				r.group.Stop()
			}
		}
		w.net.Wait()
		time.Sleep(200 * time.Microsecond)
		for _, r := range w.reps {
			r.db.Close()
		}
	}()
	byID := map[uint64]*replica{}
	for _, r := range w.reps {
		byID[r.id] = r
	}
	// (b) message durability, observed on the sender's ready-loop goroutine
	w.net.OnSend = func(from uint64, m raftpb.Message) {
		r := byID[from]
		if r == nil || r.mon == nil {
			return
		}
		d := r.mon.DurableView()
		if v := sim.AttestsOnlyDurable(d, m); v != "" {
			key := "C05:vote-before-durable"
			if m.Type == raftpb.MsgAppResp {
				key = "C05:append-ack-before-durable"
			}
			w.setFail(pbt.Failf(key, "replica %d %s", r.i, v))
		}
	}
	for _, r := range w.reps {
		if !r.joiner {
			w.start(r, true)
		}
	}
	faults, crashes, committedAfterFault := 0, 0, false
	settle := func() { time.Sleep(250 * time.Microsecond) }
	// get a first leader quickly
	w.reps[0].group.VerifCampaign()
	settle()
	for si, s := range c.Steps {
		if f := w.failed(); f != nil {
			return f
		}
		r := w.reps[s.A%len(w.reps)]
		w.tracef("step %d: %s(a=%d,b=%d,n=%d,after=%v,tape=%v)", si, stepNames[s.K], s.A, s.B, s.N, s.After, s.Tape)
		switch s.K {
		case SPropose:
			if !w.isUp(r) {
				continue
			}
			w.proposals++
			payload := fmt.Sprintf("p%d@%d", w.proposals, r.i)
			ctx, cancel := context.WithTimeout(context.Background(), 3*time.Millisecond)
			_ = r.group.Propose(ctx, []byte(payload))
			cancel()
		case STick:
			for _, rr := range w.reps {
				if w.isUp(rr) {
					n := s.N
					if rr != r {
						n = (s.N + 1) / 2
					}
					rr.group.VerifTick(n)
				}
			}
		case SPartition:
			for j, rr := range w.reps {
				if rr != r && s.N&(1<<uint(j)) != 0 {
					w.net.SetDown(r.id, rr.id, true)
					w.net.SetDown(rr.id, r.id, true)
					faults++
					o.Label("partition")
				}
			}
		case SHeal:
			w.net.HealAll()
		case SCrash:
			if !w.isUp(r) {
				continue
			}
			r.mon.Arm(s.N, s.After)
			crashes++
		case SRestart:
			if w.isUp(r) || (r.joiner && !r.joined) {
				continue
			}
			w.start(r, false)
		case SJoin:
			if c.Joiners == 0 {
				continue
			}
			j := w.reps[c.Replicas+s.A%c.Joiners]
			if j.joined {
				continue
			}
			// the leader of the moment proposes the new member (partition.proposeAddNode); the joiner loads its group
			// without peers when the catalogue change reaches it, whether or not the membership change got through
			for _, l := range w.reps {
				if w.isUp(l) && l.group.VerifStatus().RaftState == etcdRaft.StateLeader {
					_ = l.group.ProposeJoin(j.id, fmt.Sprintf("sim:%d", j.id))
					break
				}
			}
			j.joined = true
			w.start(j, false)
			o.Label("join-step")
		case SSnapshot:
			if w.isUp(r) {
				if err, ran := r.group.VerifSnapshotNow(); ran && err != nil && err != sim.ErrCrashed && err != etcdRaft.ErrSnapOutOfDate && err != wal.EmptyConfStateErr {
					w.setFail(pbt.Failf("C05:snapshot-error", "replica %d step %d: trySnapshot returned %v", r.i, si, err))
				}
			}
		case SLinkTape:
			b := w.reps[s.B%len(w.reps)]
			if b != r {
				w.net.SetLink(r.id, b.id, &sim.Link{Tape: s.Tape})
				faults++
				for _, d := range s.Tape {
					o.Labelf("link-decision-%d", d)
				}
			}
		}
		settle()
		w.collectWalViolations()
		if (faults > 0 || crashes > 0) && w.canonLen() > 0 {
			committedAfterFault = true
		}
	}
	if f := w.failed(); f != nil {
		return f
	}
	// (e) convergence once faults stop
	w.tracef("convergence phase")
	w.net.HealAll()
	for _, r := range w.reps {
		if r.mon != nil {
			r.mon.Disarm() // pending crash plans no longer fire
		}
	}
	time.Sleep(300 * time.Microsecond)
	for _, r := range w.reps {
		if !w.isUp(r) && (!r.joiner || r.joined) {
			w.start(r, false)
		}
	}
	probe := fmt.Sprintf("probe@%d", w.proposals+1)
	converged := false
	deadline := time.Now().Add(6 * time.Second)
	proposedProbe := false
	for round := 0; round < 4000 && time.Now().Before(deadline); round++ {
		if f := w.failed(); f != nil {
			return f
		}
		for _, r := range w.reps {
			if r.joiner && !r.joined {
				continue
			}
			if !w.isUp(r) {
				w.start(r, false) // a crash that fired late
			}
			if w.isUp(r) {
				r.group.VerifTick(1)
			}
		}
		time.Sleep(150 * time.Microsecond)
		w.collectWalViolations()
		// a leader?
		var leader *replica
		for _, r := range w.reps {
			if w.isUp(r) && r.group.VerifStatus().RaftState == etcdRaft.StateLeader {
				leader = r
			}
		}
		if leader != nil && round%20 == 0 {
			// a joined replica whose membership change never got through (no leader at the time, message lost) is
			// proposed again: the product's allocator does the same on the next membership notification
			if st := leader.group.VerifStatus(); st.Progress != nil {
				for _, j := range w.reps {
					if _, member := st.Progress[j.id]; j.joined && !member {
						_ = leader.group.ProposeJoin(j.id, fmt.Sprintf("sim:%d", j.id))
					}
				}
			}
			ctx, cancel := context.WithTimeout(context.Background(), 3*time.Millisecond)
			if leader.group.Propose(ctx, []byte(probe)) == nil {
				proposedProbe = true
			}
			cancel()
		}
		if !proposedProbe {
			continue
		}
		// all applied sequences equal and contain the probe
		same := true
		var ref []string
		for i, r := range w.reps {
			if r.joiner && !r.joined {
				continue
			}
			r.mu.Lock()
			a := append([]string(nil), r.applied...)
			r.mu.Unlock()
			if i == 0 {
				ref = a
			} else if strings.Join(a, ",") != strings.Join(ref, ",") {
				same = false
			}
		}
		hasProbe := false
		for _, p := range ref {
			if p == probe {
				hasProbe = true
			}
		}
		if same && hasProbe {
			converged = true
			break
		}
	}
	if f := w.failed(); f != nil {
		return f
	}
	if !converged {
		var st []string
		for _, r := range w.reps {
			if r.group == nil {
				continue
			}
			s := r.group.VerifStatus()
			r.mu.Lock()
			st = append(st, fmt.Sprintf("r%d{up=%v term=%d state=%v commit=%d applied=%d}", r.i, w.isUp(r), s.Term, s.RaftState, s.Commit, len(r.applied)))
			r.mu.Unlock()
		}
		if os.Getenv("VERIF_DEBUG_DUMP") != "" {
			buf := make([]byte, 4<<20)
			buf = buf[:runtime.Stack(buf, true)]
			fmt.Println(string(buf))
		}
		// convergence is a liveness statement judged in bounded time: a failure must reproduce to be reported
		o.Inconclusive("no-convergence-within-bound: " + strings.Join(st, " "))
		o.Note(c.String())
		return nil
	}
	if (faults > 0 || crashes > 0) && committedAfterFault {
		o.NonTrivial()
	}
	if crashes > 0 {
		o.Label("crash-armed")
	}
	for _, r := range w.reps {
		if r.inc > 1 {
			o.Label("replica-restarted")
			break
		}
	}
	o.Note(c.String())
	return nil
}

func TestRaftGlueSafety(t *testing.T) {
	pbt.Run(t, pbt.Prop[Case]{
		ID: "C05", Name: "TestRaftGlueSafety",
		Rule:    "rapid-generated schedules over 1-5 real RaftGroups (real ready loop, RaftTransport and Badger log stores; in-memory message shims): proposals at any replica, logical ticks through the loop hook, partitions/heals, per-link decision tapes (deliver/drop-with-error/drop-silently/duplicate/delay), crash of a replica at its k-th next durable write before or after performing it, restart over the same store passing the member list of the moment (as the product's allocator does; startRaftNode must tell a pristine store from one that holds state), 0-2 late joiners (membership change proposed at the leader, the joiner starts without peers), snapshot-now; invariants checked online: applied payload sequences of all incarnations are prefixes of one canonical sequence (snapshots included), a granted MsgVoteResp / accepted MsgAppResp leaves only after the term+vote / entries it attests are durable in the sender's log store, durable term/commit never go back, vote never changes within a term, committed entries are never overwritten, a restarted replica resumes at a term/vote/commit no older than durable, no two replicas hold entries of different terms at an index both have made durable as committed, no log.Fatal without injected crash; finally all replicas are restarted, healed and must converge on equal sequences containing a probe (bounded logical time; non-convergence is counted inconclusive); non-trivial = a fault or crash plan was active and entries were applied afterwards; distinct = distinct case JSON",
		Gen:     genCase,
		Check:   check,
		Journal: true,
	})
}
