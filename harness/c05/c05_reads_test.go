// C05 — the raft node reads the log store from its own goroutine while the ready loop compacts it (trySnapshot ->
// CreateSnapshot). What such a read returns is sent to followers as it is: a range that does not start at the requested
// index makes the follower's raft panic, and an entry without its payload is never applied by the follower (the replicas
// then apply different entries at the same position). This check generates logs, compaction points and read ranges and
// runs the reads while the real store compacts; a read that succeeds must return exactly what was saved.
package c05

import (
	"bytes"
	"fmt"
	"math"
	"runtime"
	"sync"
	"sync/atomic"
	"testing"

	etcdRaft "github.com/coreos/etcd/raft"
	"github.com/coreos/etcd/raft/raftpb"
	"github.com/marekgalovic/anndb/storage/wal"
	"pgregory.net/rapid"
	"verifharness/hutil"
	"verifharness/pbt"
	"verifharness/sim"
)

type ReadRange struct {
	Lo  int `json:"lo"`
	Hi  int `json:"hi"`
	Max int `json:"max,omitempty"` // size limit in bytes; 0 = none
}

type ReadsCase struct {
	N      int   `json:"n"`     // entries 1..N
	Sizes  []int `json:"sizes"` // payload size of entry i (cyclic), at least 1
	Snap   int   `json:"snap"`  // first compaction point
	Second int   `json:"second,omitempty"`
	// Readers: each reader cycles through its ranges while the store compacts
	Readers [][]ReadRange `json:"readers"`
	Rounds  int           `json:"rounds"` // the scenario is repeated on fresh stores (the overlap is a matter of timing)
}

func genReadsCase(t *rapid.T) ReadsCase {
	c := ReadsCase{N: rapid.IntRange(3, 40).Draw(t, "n")}
	c.Sizes = rapid.SliceOfN(rapid.SampledFrom([]int{1, 1, 3, 16, 64, 300}), 1, 6).Draw(t, "sizes")
	c.Snap = rapid.IntRange(1, c.N).Draw(t, "snap")
	if c.Snap < c.N && rapid.IntRange(0, 3).Draw(t, "twice") == 0 {
		c.Second = rapid.IntRange(c.Snap+1, c.N).Draw(t, "second")
	}
	rng := rapid.Custom(func(t *rapid.T) ReadRange {
		var lo int
		switch rapid.IntRange(0, 3).Draw(t, "where") {
		case 0: // the entry at the compaction point itself (it becomes the store's payload-less marker)
			lo = c.Snap
		case 1: // below it
			lo = rapid.IntRange(1, c.Snap).Draw(t, "lo")
		default:
			lo = rapid.IntRange(1, c.N).Draw(t, "lo")
		}
		hi := lo + 1
		if rapid.Bool().Draw(t, "wide") {
			hi = rapid.IntRange(lo+1, c.N+1).Draw(t, "hi")
		}
		return ReadRange{Lo: lo, Hi: hi, Max: rapid.SampledFrom([]int{0, 0, 0, 1, 40, 4096}).Draw(t, "max")}
	})
	c.Readers = rapid.SliceOfN(rapid.SliceOfN(rng, 1, 4), 1, 3).Draw(t, "readers")
	c.Rounds = rapid.IntRange(10, pbt.Pick(40, 80)).Draw(t, "rounds")
	return c
}

func (c ReadsCase) entry(i int) raftpb.Entry {
	sz := c.Sizes[i%len(c.Sizes)]
	if sz < 1 {
		sz = 1
	}
	return raftpb.Entry{Index: uint64(i), Term: uint64(1 + i/7), Data: bytes.Repeat([]byte{byte('a' + i%26)}, sz)}
}

func checkReads(c ReadsCase, o *pbt.Obs) *pbt.Failure {
	var fail atomic.Value
	setFail := func(f *pbt.Failure) { fail.CompareAndSwap(nil, f) }
	var okReads, compacted, overlapped int64
	for round := 0; round < c.Rounds && fail.Load() == nil; round++ {
		db := hutil.MemDB()
		w := wal.NewBadgerWAL(db, groupID)
		var ents []raftpb.Entry
		for i := 1; i <= c.N; i++ {
			ents = append(ents, c.entry(i))
		}
		if err := w.Save(raftpb.HardState{Term: ents[len(ents)-1].Term, Commit: uint64(c.N)}, ents, raftpb.Snapshot{}); err != nil {
			db.Close()
			return pbt.Failf("C05:log-read-during-compaction/save", "Save: %v", err)
		}
		var stop int32
		var pending int64 // highest compaction point that may have begun
		var wg sync.WaitGroup
		reads := make([]int64, len(c.Readers))
		for ri, ranges := range c.Readers {
			wg.Add(1)
			go func(ri int, ranges []ReadRange) {
				defer wg.Done()
				for k := 0; atomic.LoadInt32(&stop) == 0; k++ {
					rr := ranges[k%len(ranges)]
					max := uint64(math.MaxUint64)
					if rr.Max > 0 {
						max = uint64(rr.Max)
					}
					before := atomic.LoadInt64(&pending)
					sim.Jitter()
					es, err := w.Entries(uint64(rr.Lo), uint64(rr.Hi), max)
					after := atomic.LoadInt64(&pending)
					atomic.AddInt64(&reads[ri], 1)
					switch {
					case err == etcdRaft.ErrCompacted:
						// legal only for a range that reaches down to a compaction point that has at least begun
						if int64(rr.Lo) > after {
							setFail(pbt.Failf("C05:log-read-during-compaction/compacted-too-early", "Entries(%d,%d) = ErrCompacted, no compaction at or above %d had begun (latest: %d)", rr.Lo, rr.Hi, rr.Lo, after))
						}
						atomic.AddInt64(&compacted, 1)
					case err != nil:
						// the raft library panics on any other error of Storage.Entries
						setFail(pbt.Failf("C05:log-read-during-compaction/error", "Entries(%d,%d) = %v while the store compacts at %d (the raft library panics on it)", rr.Lo, rr.Hi, err, after))
					default:
						if len(es) == 0 {
							setFail(pbt.Failf("C05:log-read-during-compaction/empty", "Entries(%d,%d) returned nothing and no error", rr.Lo, rr.Hi))
							break
						}
						if rr.Max == 0 && len(es) != rr.Hi-rr.Lo {
							setFail(pbt.Failf("C05:log-read-during-compaction/short", "Entries(%d,%d) without a size limit returned %d entries (compaction points begun: %d..%d)", rr.Lo, rr.Hi, len(es), before, after))
						}
						for k, e := range es {
							want := c.entry(rr.Lo + k)
							if e.Index != want.Index {
								setFail(pbt.Failf("C05:log-read-during-compaction/wrong-range", "Entries(%d,%d) returned, without an error, entry %d at offset %d: the range does not start at lo / is not contiguous (compaction points begun: %d..%d); a leader sends this as an append following index %d", rr.Lo, rr.Hi, e.Index, k, before, after, rr.Lo-1))
								break
							}
							if e.Term != want.Term || !bytes.Equal(e.Data, want.Data) {
								setFail(pbt.Failf("C05:log-read-during-compaction/payload-lost", "Entries(%d,%d) returned, without an error, entry %d as term %d with %d payload bytes; term %d with %d bytes was saved (compaction points begun: %d..%d): a follower that is sent this entry never applies its payload", rr.Lo, rr.Hi, e.Index, e.Term, len(e.Data), want.Term, len(want.Data), before, after))
								break
							}
						}
						atomic.AddInt64(&okReads, 1)
						if after > 0 && int64(rr.Lo) <= after && before == 0 {
							atomic.AddInt64(&overlapped, 1)
						}
					}
					// Term of the first index of the range: the saved term or ErrCompacted, nothing else
					if t, err := w.Term(uint64(rr.Lo)); err == nil {
						if t != c.entry(rr.Lo).Term {
							setFail(pbt.Failf("C05:log-read-during-compaction/term", "Term(%d) = %d, saved %d", rr.Lo, t, c.entry(rr.Lo).Term))
						}
					} else if err != etcdRaft.ErrCompacted || int64(rr.Lo) >= atomic.LoadInt64(&pending) {
						setFail(pbt.Failf("C05:log-read-during-compaction/term", "Term(%d) = %v (compaction points begun up to %d)", rr.Lo, err, atomic.LoadInt64(&pending)))
					}
					if fail.Load() != nil {
						return
					}
				}
			}(ri, ranges)
		}
		waitReads := func(n int64) {
			for ri := range reads {
				for atomic.LoadInt64(&reads[ri]) < n && fail.Load() == nil {
					sim.Jitter()
					runtime.Gosched()
				}
			}
		}
		waitReads(1)
		cs := raftpb.ConfState{Nodes: []uint64{101, 102, 103}}
		for _, at := range []int{c.Snap, c.Second} {
			if at == 0 {
				continue
			}
			base := atomic.LoadInt64(&reads[0])
			atomic.StoreInt64(&pending, int64(at))
			if _, err := w.CreateSnapshot(uint64(at), &cs, []byte(fmt.Sprintf("state at %d", at))); err != nil {
				setFail(pbt.Failf("C05:log-read-during-compaction/snapshot", "CreateSnapshot(%d): %v", at, err))
			}
			waitReads(base + 2)
		}
		atomic.StoreInt32(&stop, 1)
		wg.Wait()
		db.Close()
	}
	if f := fail.Load(); f != nil {
		return f.(*pbt.Failure)
	}
	o.Labelf("reads-ok-%s", bucket(okReads))
	if compacted > 0 {
		o.Label("read-refused-as-compacted")
	}
	if c.Second > 0 {
		o.Label("two-compactions")
	}
	low := false
	for _, rs := range c.Readers {
		for _, r := range rs {
			if r.Lo <= c.Snap {
				low = true
			}
		}
	}
	if low && compacted > 0 && okReads > 0 {
		o.NonTrivial()
	}
	if overlapped > 0 {
		o.Label("read-began-before-and-ended-after-the-compaction-started")
	}
	return nil
}

func bucket(n int64) string {
	switch {
	case n < 100:
		return "<100"
	case n < 1000:
		return "<1000"
	}
	return ">=1000"
}

func TestLogReadsDuringCompaction(t *testing.T) {
	pbt.Run(t, pbt.Prop[ReadsCase]{
		ID: "C05", Name: "TestLogReadsDuringCompaction",
		Rule:  "rapid-generated logs (3-40 entries, payloads of 1-300 bytes), one or two compaction points, 1-3 reader goroutines each cycling through 1-4 ranges (at the compaction point, below it, anywhere; single entry or wide; with and without a size limit) that call the real store's Entries and Term while the main goroutine runs the real CreateSnapshot, repeated on 10-40 (thorough: 80) fresh stores per case; oracle: a read that returns no error returns exactly the saved entries from lo on (index, term, payload; the whole range when there is no size limit), ErrCompacted only for a range reaching down to a compaction that has begun, no other error; non-trivial = a range at or below the compaction point was read both successfully and as compacted; distinct = distinct case JSON",
		Gen:   genReadsCase,
		Check: checkReads,
	})
}
