// C06 — the Badger raft log honours the raft storage contract, per group, across reopen.
package c06

import (
	"bytes"
	"fmt"
	"math"
	"os"
	"strings"
	"testing"

	etcdRaft "github.com/coreos/etcd/raft"
	"github.com/coreos/etcd/raft/raftpb"
	badger "github.com/dgraph-io/badger/v2"
	"github.com/marekgalovic/anndb/storage/wal"
	uuid "github.com/satori/go.uuid"
	"pgregory.net/rapid"
	"verifharness/hutil"
	"verifharness/pbt"
)

func TestMain(m *testing.M) { pbt.Main(m) }

const (
	OpAppend    = iota // Save(hs?, entries, no snapshot)
	OpHardState        // Save(hs only)
	OpInstall          // Save(hs, entries?, received snapshot)
	OpCompact          // CreateSnapshot(i, cs, data)
	OpReopen           // fresh NewBadgerWAL on the same DB (cold cache)
	OpDelete           // DeleteGroup, then a new store for the same id
	nOps
)

var opNames = []string{"append", "hardstate", "install-snapshot", "create-snapshot", "reopen", "delete-group"}

type Op struct {
	K      int  `json:"k"`
	G      int  `json:"g"`                // group selector
	N      int  `json:"n,omitempty"`      // entries to append / commit advance / snapshot distance
	Back   int  `json:"back,omitempty"`   // append: overwrite this many uncommitted tail entries
	Redo   int  `json:"redo,omitempty"`   // append: the batch starts with this many stored uncommitted entries handed over again unchanged (same index, term and payload: a Ready whose unstable entries were truncated and extended between Ready and Advance)
	Bump   bool `json:"bump,omitempty"`   // raise the current term first
	WithHS bool `json:"withhs,omitempty"` // append: carry a hard state in the same Save
	Inside bool `json:"inside,omitempty"` // install: snapshot index inside the stale uncommitted tail (if any)
	Big    int  `json:"big,omitempty"`    // payload size selector
	Q      int  `json:"q,omitempty"`      // query variation seed
	Same   bool `json:"same,omitempty"`   // delete-group: keep using the SAME store instance afterwards (as a partition does)
	Long   bool `json:"long,omitempty"`   // append: a batch of 8200-8500 small entries; hardstate: commit everything; create-snapshot: at most 2 below the commit index (a compaction over more than 8192 entries)
}

type Case struct {
	Groups int  `json:"groups"` // 1..3
	Ops    []Op `json:"ops"`
	Disk   bool `json:"disk,omitempty"` // on-disk Badger opened with the server's options (values above the threshold live in the value log)
}

func (c Case) String() string {
	var p []string
	for _, o := range c.Ops {
		p = append(p, fmt.Sprintf("g%d:%s(n=%d,back=%d,bump=%v,hs=%v,inside=%v)", o.G%c.Groups, opNames[o.K], o.N, o.Back, o.Bump, o.WithHS, o.Inside))
	}
	return fmt.Sprintf("groups=%d: %s", c.Groups, strings.Join(p, " "))
}

func groupID(i int) uuid.UUID {
	switch i {
	case 0:
		return uuid.Nil
	case 1:
		return uuid.UUID{0xaa, 0xbb, 1, 2, 3, 4, 5, 6, 7, 8, 9, 10, 11, 12, 13, 0x10}
	default: // shares a 15-byte prefix with group 1
		return uuid.UUID{0xaa, 0xbb, 1, 2, 3, 4, 5, 6, 7, 8, 9, 10, 11, 12, 13, 0x11}
	}
}

// group is the harness' own raft-log model (what raft could legally do next)
// plus the two stores under comparison.
type group struct {
	id     uuid.UUID
	w      wal.WAL
	ref    *etcdRaft.MemoryStorage
	term   uint64 // current term
	commit uint64
	last   uint64
	snapIx uint64
	lastTm uint64 // term of the last entry
	vote   uint64
	terms  map[uint64]uint64
}

func newGroup(db *badger.DB, id uuid.UUID) *group {
	return &group{id: id, w: wal.NewBadgerWAL(db, id), ref: etcdRaft.NewMemoryStorage(), terms: map[uint64]uint64{0: 0}}
}

func normEntries(es []raftpb.Entry) string {
	var b strings.Builder
	for _, e := range es {
		fmt.Fprintf(&b, "(%d,%d,%d,%x)", e.Index, e.Term, e.Type, e.Data)
	}
	return b.String()
}

func normSnap(s raftpb.Snapshot) string {
	return fmt.Sprintf("idx=%d term=%d nodes=%v learners=%v data=%x", s.Metadata.Index, s.Metadata.Term, append([]uint64{}, s.Metadata.ConfState.Nodes...), append([]uint64{}, s.Metadata.ConfState.Learners...), s.Data)
}

func errName(e error) string {
	if e == nil {
		return "nil"
	}
	return e.Error()
}

// compare asks both stores the same questions.
func (g *group) compare(where string, q int) *pbt.Failure {
	f1, e1 := g.w.FirstIndex()
	f2, e2 := g.ref.FirstIndex()
	if f1 != f2 || errName(e1) != errName(e2) {
		return pbt.Failf("C06:first-index", "%s group %s: FirstIndex()=(%d,%v), reference (%d,%v)", where, g.id, f1, e1, f2, e2)
	}
	l1, e1 := g.w.LastIndex()
	l2, e2 := g.ref.LastIndex()
	if l1 != l2 || errName(e1) != errName(e2) {
		return pbt.Failf("C06:last-index", "%s group %s: LastIndex()=(%d,%v), reference (%d,%v)", where, g.id, l1, e1, l2, e2)
	}
	lo := uint64(0)
	if f2 > 2 {
		lo = f2 - 2
	}
	for i := lo; i <= l2+2; i++ {
		t1, e1 := g.w.Term(i)
		t2, e2 := g.ref.Term(i)
		if t1 != t2 || errName(e1) != errName(e2) {
			return pbt.Failf("C06:term", "%s group %s: Term(%d)=(%d,%v), reference (%d,%v) [first=%d last=%d]", where, g.id, i, t1, e1, t2, e2, f2, l2)
		}
	}
	// entry ranges: lo<hi<=last+1; lo may be below first (ErrCompacted on both)
	if l2 >= f2 {
		span := l2 - f2 + 1
		type rng struct{ lo, hi, max uint64 }
		var rs []rng
		rs = append(rs, rng{f2, l2 + 1, math.MaxUint64})
		a := f2 + uint64(q)%span
		b := a + 1 + uint64(q/7)%(l2+1-a)
		rs = append(rs, rng{a, b, math.MaxUint64}, rng{a, b, 0}, rng{a, b, uint64(q%97) * 3}, rng{a, a + 1, uint64(q % 5)})
		if f2 > 1 {
			rs = append(rs, rng{f2 - 1, l2 + 1, math.MaxUint64})
		}
		// size limits within a few bytes of a cumulative-size boundary of the range (sizes from the reference's entries)
		if full, err := g.ref.Entries(a, l2+1, math.MaxUint64); err == nil && len(full) > 0 {
			j := (q / 3) % len(full)
			var cum uint64
			for _, e := range full[:j+1] {
				cum += uint64(e.Size())
			}
			d := uint64(q % 5) // -2..+2
			if cum+d >= 2 {
				rs = append(rs, rng{a, l2 + 1, cum + d - 2})
			}
			rs = append(rs, rng{a, l2 + 1, cum})
		}
		for _, r := range rs {
			x1, e1 := g.w.Entries(r.lo, r.hi, r.max)
			x2, e2 := g.ref.Entries(r.lo, r.hi, r.max)
			if errName(e1) != errName(e2) || normEntries(x1) != normEntries(x2) {
				return pbt.Failf("C06:entries", "%s group %s: Entries(%d,%d,%d)=(%s,%v), reference (%s,%v) [first=%d last=%d]", where, g.id, r.lo, r.hi, r.max, normEntries(x1), e1, normEntries(x2), e2, f2, l2)
			}
		}
	}
	s1, e1 := g.w.Snapshot()
	s2, e2 := g.ref.Snapshot()
	if errName(e1) != errName(e2) || normSnap(s1) != normSnap(s2) {
		return pbt.Failf("C06:snapshot", "%s group %s: Snapshot()=(%s,%v), reference (%s,%v)", where, g.id, normSnap(s1), e1, normSnap(s2), e2)
	}
	h1, c1, e1 := g.w.InitialState()
	h2, c2, e2 := g.ref.InitialState()
	if errName(e1) != errName(e2) || h1.Term != h2.Term || h1.Vote != h2.Vote || h1.Commit != h2.Commit ||
		fmt.Sprint(append([]uint64{}, c1.Nodes...)) != fmt.Sprint(append([]uint64{}, c2.Nodes...)) {
		return pbt.Failf("C06:initial-state", "%s group %s: InitialState()=(%+v,%+v,%v), reference (%+v,%+v,%v)", where, g.id, h1, c1, e1, h2, c2, e2)
	}
	return nil
}

var hugePayloads bool // on-disk mode: one size class is above Badger's value threshold of the server's options

func payload(i uint64, term uint64, big int) []byte {
	n := []int{0, 1, 8, 40, 300}[big%5]
	if hugePayloads && big%5 == 4 {
		n = 17000 + int(i%7)
	}
	b := bytes.Repeat([]byte{byte(i), byte(term)}, n/2+1)[:n]
	return b
}

func (g *group) hardState() raftpb.HardState {
	return raftpb.HardState{Term: g.term, Vote: g.vote, Commit: g.commit}
}

func check(c Case, o *pbt.Obs) *pbt.Failure {
	var db *badger.DB
	hugePayloads = c.Disk
	if c.Disk {
		dir, err := os.MkdirTemp(".", "c06disk") // (the job's scratch directory: the driver removes it with whatever a killed worker left)
		if err != nil {
			panic(err)
		}
		defer os.RemoveAll(dir)
		// the options server.go uses, with the value threshold lowered from 1 MiB to 16 KiB (and smaller tables) so that
		// entries living in the value log - in production: batch writes above 1 MiB - are cheap to generate
		db, err = badger.Open(badger.LSMOnlyOptions(dir).WithLogger(nil).WithValueThreshold(16 << 10).WithMaxTableSize(16 << 20).WithNumMemtables(2).WithSyncWrites(false).WithCompactL0OnClose(false))
		if err != nil {
			panic(err)
		}
		o.Label("on-disk")
	} else {
		db = hutil.MemDB()
	}
	defer db.Close()
	ng := c.Groups
	gs := make([]*group, ng)
	for i := range gs {
		gs[i] = newGroup(db, groupID(i))
	}
	compactedOrInstalled := map[int]bool{}
	nontrivial := false
	touched := map[int]bool{}
	for step, op := range c.Ops {
		gi := op.G % ng
		g := gs[gi]
		touched[gi] = true
		where := fmt.Sprintf("step %d %s", step, opNames[op.K])
		if op.Bump {
			g.term++
			g.vote = uint64(op.Q%3) + 1
		}
		if g.term == 0 {
			g.term = 1
		}
		if g.term < g.lastTm {
			g.term = g.lastTm
		}
		switch op.K {
		case OpAppend:
			n := op.N%40 + 1
			if op.Long {
				n = 8200 + op.N%300
			}
			back := uint64(op.Back)
			if back > g.last-g.commit {
				back = g.last - g.commit
			}
			if back > 0 {
				// a conflicting overwrite always comes from a newer term
				g.term++
				o.Label("conflict-overwrite")
			}
			start := g.last + 1 - back
			ents := make([]raftpb.Entry, n)
			for i := range ents {
				ix := start + uint64(i)
				ents[i] = raftpb.Entry{Index: ix, Term: g.term, Data: payload(ix, g.term, op.Big+i)}
				if op.Long {
					ents[i].Data = payload(ix, g.term, 1+i%2)
				}
				if (op.Q+i)%11 == 0 {
					ents[i].Type = raftpb.EntryConfChange
				}
			}
			if redo := uint64(op.Redo); redo > 0 && g.last-g.commit > back {
				// stored entries in front of the new ones are part of the batch again, unchanged
				if redo > g.last-g.commit-back {
					redo = g.last - g.commit - back
				}
				same, err := g.ref.Entries(start-redo, start, 1<<62)
				if err != nil || uint64(len(same)) != redo {
					panic(fmt.Sprintf("harness: reference Entries(%d,%d) = %d entries, %v", start-redo, start, len(same), err))
				}
				ents = append(append([]raftpb.Entry(nil), same...), ents...)
				start -= redo
				n += int(redo)
				o.Label("append-starts-with-unchanged-stored-entries")
				if start+uint64(n)-1 < g.last {
					o.Label("append-starts-with-unchanged-stored-entries-and-ends-before-the-old-last-index")
				}
			}
			var hs raftpb.HardState
			if op.WithHS {
				hs = g.hardState()
			}
			if err := g.w.Save(hs, ents, raftpb.Snapshot{}); err != nil {
				return pbt.Failf("C06:save-error", "%s group %s: Save(entries %d..%d) returned %v", where, g.id, start, start+uint64(n)-1, err)
			}
			if err := g.ref.Append(ents); err != nil {
				panic(fmt.Sprintf("harness generated an illegal append: %v", err))
			}
			if op.WithHS {
				g.ref.SetHardState(hs)
			}
			for _, e := range ents {
				g.terms[e.Index] = e.Term
			}
			g.last = start + uint64(n) - 1
			g.lastTm = g.term
		case OpHardState:
			adv := uint64(op.N % 64)
			if op.Long {
				adv = g.last - g.commit
			}
			if g.commit+adv > g.last {
				adv = g.last - g.commit
			}
			g.commit += adv
			hs := g.hardState()
			if err := g.w.Save(hs, nil, raftpb.Snapshot{}); err != nil {
				return pbt.Failf("C06:save-error", "%s group %s: Save(hardstate %+v) returned %v", where, g.id, hs, err)
			}
			g.ref.SetHardState(hs)
		case OpInstall:
			// a snapshot received from the leader: index > commit
			var ix uint64
			if op.Inside && g.last > g.commit {
				ix = g.commit + 1 + uint64(op.N)%(g.last-g.commit)
				g.term++ // the leader that sent it is in a newer term than the stale tail
				o.Label("snapshot-inside-stale-tail")
			} else {
				ix = g.last + 1 + uint64(op.N%5)
				o.Label("snapshot-ahead-of-log")
			}
			snapTerm := g.term
			snap := raftpb.Snapshot{Data: payload(ix, snapTerm, op.Big), Metadata: raftpb.SnapshotMetadata{Index: ix, Term: snapTerm, ConfState: raftpb.ConfState{Nodes: []uint64{1, 2, uint64(op.Q%5) + 3}}}}
			var ents []raftpb.Entry
			if op.WithHS && op.Back > 0 {
				// entries that follow the snapshot in the same Ready
				for i := 0; i < op.Back%3+1; i++ {
					e := raftpb.Entry{Index: ix + 1 + uint64(i), Term: g.term, Data: payload(ix, g.term, op.Big+i)}
					ents = append(ents, e)
				}
				o.Label("snapshot-with-entries")
			}
			g.commit = ix
			hs := g.hardState()
			if err := g.w.Save(hs, ents, snap); err != nil {
				return pbt.Failf("C06:save-error", "%s group %s: Save(snapshot@%d,%d entries) returned %v", where, g.id, ix, len(ents), err)
			}
			if err := g.ref.ApplySnapshot(snap); err != nil {
				panic(fmt.Sprintf("harness generated an illegal snapshot: %v", err))
			}
			if err := g.ref.Append(ents); err != nil {
				panic(fmt.Sprintf("harness generated illegal entries after snapshot: %v", err))
			}
			g.ref.SetHardState(hs)
			g.snapIx, g.last, g.lastTm = ix, ix+uint64(len(ents)), g.term
			g.terms = map[uint64]uint64{ix: snapTerm}
			for _, e := range ents {
				g.terms[e.Index] = e.Term
			}
			compactedOrInstalled[gi] = true
		case OpCompact:
			// applied <= commit; snapshot index in (snapIx, commit]
			if g.commit <= g.snapIx {
				continue
			}
			ix := g.snapIx + 1 + uint64(op.N)%(g.commit-g.snapIx)
			if op.Long {
				ix = g.commit - uint64(op.N)%3
				if ix <= g.snapIx {
					ix = g.commit
				}
				o.Label("compaction-near-the-commit-index")
			}
			cs := &raftpb.ConfState{Nodes: []uint64{1, uint64(op.Q%4) + 2}}
			data := payload(ix, g.terms[ix], op.Big)
			s1, err := g.w.CreateSnapshot(ix, cs, data)
			if err != nil {
				return pbt.Failf("C06:create-snapshot-error", "%s group %s: CreateSnapshot(%d) returned %v [snap=%d commit=%d last=%d]", where, g.id, ix, err, g.snapIx, g.commit, g.last)
			}
			s2, err := g.ref.CreateSnapshot(ix, cs, data)
			if err != nil {
				panic(fmt.Sprintf("harness generated an illegal CreateSnapshot: %v", err))
			}
			if err := g.ref.Compact(ix); err != nil {
				panic(fmt.Sprintf("harness generated an illegal Compact: %v", err))
			}
			if normSnap(s1) != normSnap(s2) {
				return pbt.Failf("C06:snapshot", "%s group %s: CreateSnapshot(%d) returned %s, reference %s", where, g.id, ix, normSnap(s1), normSnap(s2))
			}
			g.snapIx = ix
			compactedOrInstalled[gi] = true
			o.Label("create-snapshot")
		case OpReopen:
			g.w = wal.NewBadgerWAL(db, g.id)
			o.Label("reopen")
			if compactedOrInstalled[gi] {
				o.Label("reopen-after-compaction-or-install")
				nontrivial = true
			}
		case OpDelete:
			if err := g.w.DeleteGroup(); err != nil {
				return pbt.Failf("C06:delete-error", "%s group %s: DeleteGroup returned %v", where, g.id, err)
			}
			ng2 := newGroup(db, g.id)
			if op.Same {
				// storage.partition keeps its log store object across unloadRaft (DeleteGroup) / loadRaft
				ng2.w = g.w
				o.Label("delete-then-reuse-same-instance")
			}
			gs[gi] = ng2
			g = ng2
			compactedOrInstalled[gi] = false
			o.Label("delete-then-recreate")
		}
		// the group just touched, with extra query variety ...
		if f := g.compare(where, op.Q+step*13); f != nil {
			return f
		}
		// ... and every other group must be unaffected
		for j, og := range gs {
			if j != gi {
				if f := og.compare(where+" (other group)", op.Q); f != nil {
					f.Key = "C06:cross-group/" + f.Key
					return f
				}
			}
		}
	}
	if len(touched) >= 2 {
		o.Label("groups-interleaved")
		nontrivial = true
	}
	if nontrivial {
		o.NonTrivial()
	}
	o.Note(c.String())
	return nil
}

func genCase(t *rapid.T) Case {
	maxOps := pbt.Pick(30, 60)
	op := rapid.Custom(func(t *rapid.T) Op {
		k := rapid.SampledFrom([]int{OpAppend, OpAppend, OpAppend, OpAppend, OpHardState, OpHardState, OpHardState, OpInstall, OpCompact, OpCompact, OpReopen, OpReopen, OpDelete}).Draw(t, "k")
		o := Op{K: k, G: rapid.IntRange(0, 2).Draw(t, "g"), Q: rapid.IntRange(0, 1000).Draw(t, "q")}
		switch k {
		case OpAppend:
			o.N = rapid.SampledFrom([]int{0, 0, 1, 1, 2, 3, 4, 5, 11, 29}).Draw(t, "n")
			o.Back = rapid.SampledFrom([]int{0, 0, 0, 1, 2, 5}).Draw(t, "back")
			o.Redo = rapid.SampledFrom([]int{0, 0, 0, 1, 2, 3}).Draw(t, "redo")
			o.Bump = rapid.IntRange(0, 4).Draw(t, "bump") == 0
			o.WithHS = rapid.Bool().Draw(t, "hs")
			o.Big = rapid.IntRange(0, 4).Draw(t, "big")
		case OpHardState:
			o.N = rapid.SampledFrom([]int{0, 1, 1, 2, 3, 8, 63, 63}).Draw(t, "n")
			o.Bump = rapid.IntRange(0, 3).Draw(t, "bump") == 0
		case OpInstall:
			o.N = rapid.IntRange(0, 6).Draw(t, "n")
			o.Inside = rapid.Bool().Draw(t, "inside")
			o.WithHS = rapid.IntRange(0, 3).Draw(t, "withents") == 0
			o.Back = rapid.IntRange(0, 3).Draw(t, "nents")
			o.Big = rapid.IntRange(0, 4).Draw(t, "big")
		case OpCompact:
			o.N = rapid.IntRange(0, 200).Draw(t, "n")
			o.Big = rapid.IntRange(0, 4).Draw(t, "big")
		case OpDelete:
			o.Same = rapid.Bool().Draw(t, "same")
		}
		return o
	})
	c := Case{Groups: rapid.IntRange(1, 3).Draw(t, "groups"), Ops: rapid.SliceOfN(op, 3, maxOps).Draw(t, "ops")}
	// one case in two hundred: a log of more than 8192 entries that is committed, compacted in one go and reopened before the
	// generated calls carry on (what a busy partition's log looks like between two snapshots: the snapshot offset is 5000)
	if rapid.Uint64().Draw(t, "longlog")%200 == 137 {
		g := rapid.IntRange(0, 2).Draw(t, "longg")
		n := rapid.IntRange(0, 299).Draw(t, "longn")
		at := rapid.IntRange(0, len(c.Ops)).Draw(t, "longat")
		sc := []Op{{K: OpAppend, G: g, N: n, Long: true, WithHS: true}, {K: OpHardState, G: g, Long: true}, {K: OpCompact, G: g, N: n, Long: true}, {K: OpReopen, G: g}}
		c.Ops = append(append(append([]Op(nil), c.Ops[:at]...), sc...), c.Ops[at:]...)
		if len(c.Ops) > at+12 {
			c.Ops = c.Ops[:at+12] // every later call is compared over the whole index range: keep such cases short
		}
	}
	return c
}

func genDiskCase(t *rapid.T) Case {
	c := genCase(t)
	c.Disk = true
	return c
}

func TestWalOnDiskVsMemoryStorage(t *testing.T) {
	pbt.Run(t, pbt.Prop[Case]{
		ID: "C06", Name: "TestWalOnDiskVsMemoryStorage",
		Rule:  "the same generated call sequences and oracle as TestWalVsMemoryStorage, over an on-disk Badger opened with the options server.go uses (LSMOnlyOptions) except that the value threshold is lowered from 1 MiB to 16 KiB, with one payload size class of 17000-17006 bytes, so that some entries live in the value log (in production: batch writes above 1 MiB) and others in the LSM tree; size-limited Entries() queries include limits within 2 bytes of a cumulative-size boundary; non-trivial and distinct as in TestWalVsMemoryStorage",
		Gen:   genDiskCase,
		Check: check,
	})
}

func TestWalVsMemoryStorage(t *testing.T) {
	pbt.Run(t, pbt.Prop[Case]{
		ID: "C06", Name: "TestWalVsMemoryStorage",
		Rule:  "rapid-generated raft-legal call sequences (contiguous appends incl. conflicting overwrites of the uncommitted tail from a newer term and batches that begin with 1-3 stored uncommitted entries handed over again unchanged - so a batch may begin with a matching term, span several terms and end before the old last index -, hard-state saves with monotone term/commit, installs of received snapshots with index > commit both ahead of the log and inside the stale tail, optionally with following entries, CreateSnapshot(i) for snapshot < i <= commit, in one case of two hundred a batch of 8200-8500 entries that is committed, compacted in one CreateSnapshot and reopened, DeleteGroup + re-create, DeleteGroup and carrying on with the SAME store object as storage.partition does, reopen = fresh NewBadgerWAL on the same in-memory Badger) over 1-3 groups in one DB (nil id, and two ids sharing a 15-byte prefix); after every call FirstIndex/LastIndex/Term(first-2..last+2)/Entries(ranges x size limits incl. 0, no-limit and limits within 2 bytes of a cumulative-size boundary, lo<first)/Snapshot/InitialState are compared with etcd raft.MemoryStorage fed the same calls, for the touched group and every other group; non-trivial = a reopen after a compaction or snapshot install, or >=2 groups interleaved; distinct = distinct case JSON",
		Gen:   genCase,
		Check: check,
	})
}
