// Package prod is the product-path flavour of harness layer B: N simulated
// nodes, each with the repository's real DatasetManager + Allocator + Conn +
// RaftTransport over its own Badger store; datasets are created by feeding the
// same catalogue entries to every node (scripted zero group), so partitions
// load their raft groups through the repository's own watch -> loadRaft path -
// also on restart. Partition log stores are wrapped by sim.MonWAL (crash
// injection / durability monitoring), raft messages travel through sim.Net,
// and proxied writes / remote searches use in-memory client shims.
package prod

import (
	"context"
	"fmt"
	"sync"
	"time"

	etcdRaft "github.com/coreos/etcd/raft"
	"github.com/coreos/etcd/raft/raftpb"
	badger "github.com/dgraph-io/badger/v2"
	pb "github.com/marekgalovic/anndb/protobuf"
	"github.com/marekgalovic/anndb/services"
	"github.com/marekgalovic/anndb/storage"
	"github.com/marekgalovic/anndb/storage/raft"
	"github.com/marekgalovic/anndb/storage/wal"
	uuid "github.com/satori/go.uuid"
	"google.golang.org/grpc"
	"verifharness/catalog"
	"verifharness/hutil"
	"verifharness/sim"
)

func NodeID(i int) uint64 { return uint64(301 + i) }

type Node struct {
	I   int
	Id  uint64
	DB  *badger.DB
	R   *catalog.Replica // current incarnation (nil while down)
	Inc int

	mu   sync.Mutex
	Mons map[uuid.UUID]*sim.MonWAL // current incarnation's partition log stores
	Data pb.DataManagerServer
}

type Cluster struct {
	Nodes   []*Node
	Net     *sim.Net
	Catalog []catalog.Op // catalogue log replayed on every (re)start
	// Unwired nodes get no in-memory data client on their peers (peers would have to dial them).
	Unwired map[int]bool
	// OnCrash is called when a node's partition log store fires its crash plan.
	OnCrash func(n *Node)

	mu       sync.Mutex
	sendViol []string // messages that left a node before what they attest was durable
}

var (
	wrapMu      sync.Mutex
	wrapCluster *Cluster
	wrapNode    *Node
)

func New(n int) *Cluster { return NewOn(n, hutil.MemDB) }

// NewOn builds the cluster over stores opened by openDB.
func NewOn(n int, openDB func() *badger.DB) *Cluster {
	c := &Cluster{Net: sim.NewNet()}
	// every raft message leaving a node is compared with what that node's log store of the group has made durable
	// (observed on the sender's ready-loop goroutine, before the message is handed to the network)
	c.Net.OnSendGroup = func(from uint64, group uuid.UUID, m raftpb.Message) {
		for _, n := range c.Nodes {
			if n.Id != from {
				continue
			}
			n.mu.Lock()
			mon := n.Mons[group]
			n.mu.Unlock()
			if mon == nil {
				return
			}
			if v := sim.AttestsOnlyDurable(mon.DurableView(), m); v != "" {
				c.mu.Lock()
				c.sendViol = append(c.sendViol, fmt.Sprintf("node %d partition %x: %s", n.I, group[:4], v))
				c.mu.Unlock()
			}
		}
	}
	for i := 0; i < n; i++ {
		c.Nodes = append(c.Nodes, &Node{I: i, Id: NodeID(i), DB: openDB(), Mons: map[uuid.UUID]*sim.MonWAL{}})
	}
	return c
}

func (c *Cluster) members() []uint64 {
	var m []uint64
	for _, n := range c.Nodes {
		m = append(m, n.Id)
	}
	return m
}

// Start (re)starts node i: fresh Conn/transport/manager/allocator over the same
// store, peers wired through the simulated network, catalogue log replayed.
func (c *Cluster) Start(i int) {
	n := c.Nodes[i]
	n.Inc++
	inc := n.Inc
	r := catalog.NewReplicaOnDB(fmt.Sprintf("node%d.%d", i, n.Inc), n.Id, c.members(), n.DB)
	r.KeepDB = true
	for _, p := range c.Nodes {
		if p.Id != n.Id {
			r.Tr.VerifSetPeerClient(p.Id, c.Net.Client(n.Id, p.Id))
		}
	}
	n.mu.Lock()
	n.Mons = map[uuid.UUID]*sim.MonWAL{}
	n.mu.Unlock()
	n.R = r
	n.Data = services.NewDataManagerServer(r.DM)
	c.Net.SetTarget(n.Id, r.Tr)
	// partitions created while the catalogue is replayed on this node get monitored log stores
	wrapMu.Lock()
	wrapCluster, wrapNode = c, n
	storage.VerifSetWALWrapper(func(id uuid.UUID, w wal.WAL) wal.WAL {
		m := sim.NewMonWAL(w)
		node := wrapNode
		m.OnCrash = func() { wrapCluster.crashed(node, inc) }
		node.mu.Lock()
		node.Mons[id] = m
		node.mu.Unlock()
		return m
	})
	m := catalog.Model{}
	for k, op := range c.Catalog {
		_ = r.G.Process(catalog.Marshal(op, k, m))
		catalog.ApplyModel(m, op)
	}
	storage.VerifSetWALWrapper(nil)
	wrapMu.Unlock()
	r.Flush() // the allocator has loaded every local raft group
	// wire dataset clients for proxied requests
	for slot := range c.datasetSlots() {
		if ds, err := r.DM.Get(catalog.DatasetID(slot)); err == nil {
			for _, p := range c.Nodes {
				if c.Unwired[p.I] && p.Id != n.Id {
					continue
				}
				ds.VerifSetClients(p.Id, nil, &dataShim{c: c, to: p})
			}
		}
	}
}

func (c *Cluster) datasetSlots() map[int]bool {
	s := map[int]bool{}
	for _, op := range c.Catalog {
		if op.K == catalog.OpCreate {
			s[op.Slot] = true
		}
	}
	return s
}

// crashed: the node's process is considered dead from now on.
func (c *Cluster) crashed(n *Node, inc int) {
	c.mu.Lock()
	if n.Inc != inc || n.R == nil {
		c.mu.Unlock()
		return
	}
	r := n.R
	n.R = nil
	c.mu.Unlock()
	if c.OnCrash != nil {
		c.OnCrash(n)
	}
	c.Net.SetTarget(n.Id, nil)
	// every store of the dead incarnation stops accepting writes, every group is killed
	n.mu.Lock()
	for _, m := range n.Mons {
		m.Kill()
	}
	n.mu.Unlock()
	for _, g := range r.Tr.VerifGroups() {
		g.VerifKill()
	}
	r.Alloc.Stop()
}

// Leave: node i is dead and has been removed from the cluster: the other nodes forget its address.
func (c *Cluster) Leave(i int) {
	c.Kill(i)
	for j, n := range c.Nodes {
		if j != i && c.Up(j) {
			n.R.Conn.RemoveNode(c.Nodes[i].Id)
		}
	}
}

// Kill crashes node i right now (between durable writes).
func (c *Cluster) Kill(i int) {
	n := c.Nodes[i]
	c.crashed(n, n.Inc)
}

func (c *Cluster) Up(i int) bool {
	c.mu.Lock()
	defer c.mu.Unlock()
	return c.Nodes[i].R != nil
}

// Dataset returns node i's Dataset object for slot.
func (c *Cluster) Dataset(i, slot int) *storage.Dataset {
	c.mu.Lock()
	r := c.Nodes[i].R
	c.mu.Unlock()
	if r == nil {
		return nil
	}
	ds, err := r.DM.Get(catalog.DatasetID(slot))
	if err != nil {
		return nil
	}
	return ds
}

// Groups returns the live partition raft groups of node i for dataset slot.
func (c *Cluster) Groups(i, slot int) []*raft.RaftGroup {
	ds := c.Dataset(i, slot)
	if ds == nil {
		return nil
	}
	var gs []*raft.RaftGroup
	for p := 0; p < ds.VerifPartitionCount(); p++ {
		if g := ds.VerifPartitionRaft(p); g != nil {
			gs = append(gs, g)
		}
	}
	return gs
}

// Elect drives logical time until every partition group of dataset slot has a leader among the live nodes.
func (c *Cluster) Elect(slot int, maxRounds int) bool {
	for round := 0; round < maxRounds; round++ {
		allLed := true
		any := false
		for i := range c.Nodes {
			for _, g := range c.Groups(i, slot) {
				any = true
				if g.VerifStatus().Lead == etcdRaft.None {
					allLed = false
				}
			}
		}
		if any && allLed {
			return true
		}
		for i := range c.Nodes {
			for _, g := range c.Groups(i, slot) {
				g.VerifTick(1 + (i+round)%3)
			}
		}
		time.Sleep(100 * time.Microsecond)
	}
	return false
}

func (c *Cluster) Mon(i int, pid uuid.UUID) *sim.MonWAL {
	n := c.Nodes[i]
	n.mu.Lock()
	defer n.mu.Unlock()
	return n.Mons[pid]
}

// WalViolations collects log-store invariant violations seen by any monitored store.
// SendViolations: raft messages that left a node before what they attest was durable in its log store.
func (c *Cluster) SendViolations() []string {
	c.mu.Lock()
	defer c.mu.Unlock()
	out := c.sendViol
	c.sendViol = nil
	return out
}

func (c *Cluster) WalViolations() []string {
	var out []string
	// log matching on what is durable and committed: two replicas of a partition never hold entries of different terms
	// at an index both of them have made durable as committed
	type view struct {
		node int
		d    sim.Durable
	}
	byPart := map[uuid.UUID][]view{}
	for _, n := range c.Nodes {
		n.mu.Lock()
		for id, m := range n.Mons {
			byPart[id] = append(byPart[id], view{n.I, m.DurableView()})
		}
		n.mu.Unlock()
	}
	for id, vs := range byPart {
		for a := 0; a < len(vs); a++ {
			for b := a + 1; b < len(vs); b++ {
				hi := vs[a].d.Commit
				if vs[b].d.Commit < hi {
					hi = vs[b].d.Commit
				}
				for i := hi; i > 0; i-- {
					ta, oka := vs[a].d.Terms[i]
					tb, okb := vs[b].d.Terms[i]
					if !oka || !okb || i <= vs[a].d.SnapIndex || i <= vs[b].d.SnapIndex {
						break
					}
					if ta != tb {
						out = append(out, fmt.Sprintf("partition %x: node %d holds an entry of term %d at index %d, node %d one of term %d, and both have made that index durable as committed", id[:4], vs[a].node, ta, i, vs[b].node, tb))
						break
					}
				}
			}
		}
	}
	for _, n := range c.Nodes {
		n.mu.Lock()
		for id, m := range n.Mons {
			for _, v := range m.TakeViolations() {
				out = append(out, fmt.Sprintf("node %d partition %x: %s", n.I, id[:4], v))
			}
		}
		n.mu.Unlock()
	}
	return out
}

func (c *Cluster) Close() {
	for i, n := range c.Nodes {
		if c.Up(i) {
			n.R.Close()
		}
	}
	c.Net.Wait()
	time.Sleep(200 * time.Microsecond)
	for _, n := range c.Nodes {
		n.DB.Close()
	}
}

// ---- DataManager client shim (proxied writes between simulated nodes) ---------------

type dataShim struct {
	c  *Cluster
	to *Node
}

func (d *dataShim) srv() (pb.DataManagerServer, error) {
	d.c.mu.Lock()
	defer d.c.mu.Unlock()
	if d.to.R == nil {
		return nil, fmt.Errorf("sim: node %d is down", d.to.I)
	}
	return d.to.Data, nil
}

func (d *dataShim) Insert(ctx context.Context, in *pb.InsertRequest, _ ...grpc.CallOption) (*pb.EmptyMessage, error) {
	s, err := d.srv()
	if err != nil {
		return nil, err
	}
	return s.Insert(ctx, in)
}
func (d *dataShim) Update(ctx context.Context, in *pb.UpdateRequest, _ ...grpc.CallOption) (*pb.EmptyMessage, error) {
	s, err := d.srv()
	if err != nil {
		return nil, err
	}
	return s.Update(ctx, in)
}
func (d *dataShim) Remove(ctx context.Context, in *pb.RemoveRequest, _ ...grpc.CallOption) (*pb.EmptyMessage, error) {
	s, err := d.srv()
	if err != nil {
		return nil, err
	}
	return s.Remove(ctx, in)
}
func (d *dataShim) BatchInsert(ctx context.Context, in *pb.BatchRequest, _ ...grpc.CallOption) (*pb.BatchResponse, error) {
	s, err := d.srv()
	if err != nil {
		return nil, err
	}
	return s.BatchInsert(ctx, in)
}
func (d *dataShim) BatchUpdate(ctx context.Context, in *pb.BatchRequest, _ ...grpc.CallOption) (*pb.BatchResponse, error) {
	s, err := d.srv()
	if err != nil {
		return nil, err
	}
	return s.BatchUpdate(ctx, in)
}
func (d *dataShim) BatchRemove(ctx context.Context, in *pb.BatchRequest, _ ...grpc.CallOption) (*pb.BatchResponse, error) {
	s, err := d.srv()
	if err != nil {
		return nil, err
	}
	return s.BatchRemove(ctx, in)
}
func (d *dataShim) PartitionBatchInsert(ctx context.Context, in *pb.PartitionBatchRequest, _ ...grpc.CallOption) (*pb.BatchResponse, error) {
	s, err := d.srv()
	if err != nil {
		return nil, err
	}
	return s.PartitionBatchInsert(ctx, in)
}
func (d *dataShim) PartitionBatchUpdate(ctx context.Context, in *pb.PartitionBatchRequest, _ ...grpc.CallOption) (*pb.BatchResponse, error) {
	s, err := d.srv()
	if err != nil {
		return nil, err
	}
	return s.PartitionBatchUpdate(ctx, in)
}
func (d *dataShim) PartitionBatchRemove(ctx context.Context, in *pb.PartitionBatchRequest, _ ...grpc.CallOption) (*pb.BatchResponse, error) {
	s, err := d.srv()
	if err != nil {
		return nil, err
	}
	return s.PartitionBatchRemove(ctx, in)
}
func (d *dataShim) PartitionInfo(ctx context.Context, in *pb.PartitionInfoRequest, _ ...grpc.CallOption) (*pb.PartitionInfoResponse, error) {
	s, err := d.srv()
	if err != nil {
		return nil, err
	}
	return s.PartitionInfo(ctx, in)
}
