// C08 — index snapshots round-trip exactly for every reachable state and any reader.
package c08

import (
	"testing"

	"pgregory.net/rapid"
	"verifharness/idxsm"
	"verifharness/pbt"
)

func TestMain(m *testing.M) { pbt.Main(m) }

func TestSnapshotRoundTrip(t *testing.T) {
	g := idxsm.Gen(idxsm.GenOpts{
		MaxIds: pbt.Pick(16, 48), MinSteps: 1, MaxSteps: pbt.Pick(40, 100), MaxDim: 5,
		//                 ins rem upd s/l srch get
		Weights:  [6]int{9, 4, 2, 4, 1, 0},
		Boundary: true,
		Tall:     true,
	})
	pbt.Run(t, pbt.Prop[idxsm.History]{
		ID: "C08", Name: "TestSnapshotRoundTrip",
		Rule:    "rapid-generated index histories (insert/remove/update, small id pool, M in {1..16}; a quarter of the histories with M in {1,2} and mostly multi-layer items; removals aimed at the current entry point or at its nearest neighbour on its top linked layer in half of the removes; metadata incl. nil/empty/empty-key/non-UTF8 and, in 1 of 20 inserts, keys of 255/256/300 bytes and values of 65535/65536/70000 bytes) with save/load steps at arbitrary points: header on/off, target fresh or used (5 other items), reader fragmenting reads by a generated cyclic size list (1..1000 bytes); oracle = Load returns nil, zero bytes left, dump before == dump after (ids, vector bits, metadata, levels, live links with bit-identical distances, entry point, item/byte counters recomputed), re-save has equal length; history continues on the loaded index; non-trivial = a save/load of a state that has a tombstoned-neighbour link, or that was read through a fragmenting reader, or into a used index; distinct = distinct case JSON",
		Journal: true,
		Gen:     func(t *rapid.T) idxsm.History { return g.Draw(t, "history") },
		Check: func(h idxsm.History, o *pbt.Obs) *pbt.Failure {
			return idxsm.Run(h, idxsm.Oracles{RoundTrip: true, Search: true, Map: true}, o)
		},
	})
}
