// C19 — priority queues pop in order; reversing yields an independent queue.
package c19

import (
	"fmt"
	"math"
	"sort"
	"strings"
	"testing"

	"github.com/marekgalovic/anndb/utils"
	"pgregory.net/rapid"
	"verifharness/pbt"
)

func TestMain(m *testing.M) { pbt.Main(m) }

// Op kinds.
const (
	opPush = iota
	opPop
	opPeek
	opLen
	opSlice
	opReverse
	opDrain
	opBulkPush // N pushes in a row (queues far beyond the sizes the index uses: growth and shrinking of the backing store)
	opBulkPop  // N pops in a row
	nOps
)

type Op struct {
	K int     `json:"k"`           // kind
	Q int     `json:"q"`           // queue selector (mod number of live queues)
	P float32 `json:"p"`           // priority (push)
	N int     `json:"n,omitempty"` // bulk ops: how many
}

type Case struct {
	Max bool      `json:"max"` // first queue is a max-queue
	Pre []float32 `json:"pre"` // priorities pushed before the op sequence starts
	Ops []Op      `json:"ops"`
	Big bool      `json:"big,omitempty"` // bulk ops enabled (otherwise they count as a single push / pop)
}

// model of one queue: multiset of (priority, serial) pairs.
type mItem struct {
	p float32
	s int
}
type mQueue struct {
	max   bool
	items []mItem
}

func (m *mQueue) extreme() float32 {
	e := m.items[0].p
	for _, it := range m.items {
		if (m.max && it.p > e) || (!m.max && it.p < e) {
			e = it.p
		}
	}
	return e
}

func (m *mQueue) remove(p float32, s int) bool {
	for i, it := range m.items {
		if it.p == p && it.s == s {
			m.items = append(m.items[:i], m.items[i+1:]...)
			return true
		}
	}
	return false
}

func (m *mQueue) sortedKey() string {
	k := make([]string, len(m.items))
	for i, it := range m.items {
		k[i] = fmt.Sprintf("%g/%d", it.p, it.s)
	}
	sort.Strings(k)
	return strings.Join(k, ",")
}

func implKey(q utils.PriorityQueue) string {
	s := q.ToSlice()
	k := make([]string, len(s))
	for i, it := range s {
		k[i] = fmt.Sprintf("%g/%d", it.Priority(), it.Value().(int))
	}
	sort.Strings(k)
	return strings.Join(k, ",")
}

// (negative zero is a non-negative priority: it passes Push's `priority < 0` guard and ties with 0)
var prios = []float32{0, 0, 1, 1, 2, 3, 5, 8, 0.5, 2.5, 1e-30, 3.4e38, float32(math.Copysign(0, -1)), float32(math.Copysign(0, -1))}

func genCase(t *rapid.T) Case {
	maxOps := pbt.Pick(40, 120)
	op := rapid.Custom(func(t *rapid.T) Op {
		// weights: push-heavy so queues grow past the sizes the unit tests use
		k := rapid.SampledFrom([]int{opPush, opPush, opPush, opPush, opPop, opPop, opPeek, opLen, opSlice, opReverse, opDrain, opBulkPush, opBulkPop}).Draw(t, "k")
		o := Op{K: k, Q: rapid.SampledFrom([]int{0, 0, 0, 1, 1, 1, 2, 3, 4, 5}).Draw(t, "q")}
		if k == opBulkPush || k == opBulkPop {
			o.N = rapid.SampledFrom([]int{20, 100, 129, 150, 300, 600}).Draw(t, "n")
		}
		if k == opPush || k == opBulkPush {
			if rapid.IntRange(0, 3).Draw(t, "grid") > 0 {
				o.P = rapid.SampledFrom(prios).Draw(t, "p")
			} else {
				o.P = rapid.Float32Range(0, 1000).Draw(t, "pf")
			}
		}
		return o
	})
	prio := rapid.OneOf(rapid.SampledFrom(prios), rapid.SampledFrom(prios), rapid.Float32Range(0, 1000))
	return Case{
		Max: rapid.Bool().Draw(t, "max"),
		Pre: rapid.SliceOfN(prio, 0, 12).Draw(t, "pre"),
		Ops: rapid.SliceOfN(op, 6, maxOps).Draw(t, "ops"),
		Big: rapid.IntRange(0, 9).Draw(t, "big") == 0,
	}
}

func check(c Case, o *pbt.Obs) *pbt.Failure {
	var qs []utils.PriorityQueue
	var ms []*mQueue
	if c.Max {
		qs = append(qs, utils.NewMaxPriorityQueue())
	} else {
		qs = append(qs, utils.NewMinPriorityQueue())
	}
	ms = append(ms, &mQueue{max: c.Max})
	serial := 0
	for _, p := range c.Pre {
		serial++
		qs[0].Push(utils.NewPriorityQueueItem(p, serial))
		ms[0].items = append(ms[0].items, mItem{p, serial})
	}
	reversedBig := -1 // step index of a reverse of a queue with >= 4 elements
	opsAfterOnSrc, opsAfterOnDst := false, false
	revSrc, revDst := -1, -1

	compareAll := func(step int, what string) *pbt.Failure {
		for i := range qs {
			if qs[i].Len() != len(ms[i].items) {
				return pbt.Failf("C19:len", "step %d (%s): queue %d Len()=%d, model holds %d", step, what, i, qs[i].Len(), len(ms[i].items))
			}
			if ik, mk := implKey(qs[i]), ms[i].sortedKey(); ik != mk {
				return pbt.Failf("C19:contents", "step %d (%s): queue %d holds {%s}, model {%s}", step, what, i, ik, mk)
			}
			if len(ms[i].items) > 0 {
				top := qs[i].Peek()
				if top.Priority() != ms[i].extreme() {
					return pbt.Failf("C19:peek-not-extremal", "step %d (%s): queue %d (max=%v) Peek()=%g but extremal priority is %g", step, what, i, ms[i].max, top.Priority(), ms[i].extreme())
				}
			}
		}
		return nil
	}

	popOne := func(step, i int) *pbt.Failure {
		want := ms[i].extreme()
		it := qs[i].Pop()
		if it.Priority() != want {
			return pbt.Failf("C19:pop-order", "step %d: queue %d (max=%v) popped priority %g, extremal is %g", step, i, ms[i].max, it.Priority(), want)
		}
		if !ms[i].remove(it.Priority(), it.Value().(int)) {
			return pbt.Failf("C19:pop-foreign", "step %d: queue %d popped (%g,%d) which the model does not hold", step, i, it.Priority(), it.Value().(int))
		}
		return nil
	}

	for step, op := range c.Ops {
		i := op.Q % len(qs)
		if reversedBig >= 0 {
			if i == revSrc && (op.K == opPush || op.K == opPop || op.K == opDrain || op.K == opBulkPush || op.K == opBulkPop) {
				opsAfterOnSrc = true
			}
			if i == revDst && (op.K == opPush || op.K == opPop || op.K == opDrain || op.K == opBulkPush || op.K == opBulkPop) {
				opsAfterOnDst = true
			}
		}
		if !c.Big {
			if op.K == opBulkPush {
				op.K = opPush
			} else if op.K == opBulkPop {
				op.K = opPop
			}
		}
		switch op.K {
		case opBulkPush:
			for j := 0; j < op.N; j++ {
				serial++
				p := op.P + float32((j*37)%101) // a spread of priorities with ties, derived from the drawn one
				qs[i].Push(utils.NewPriorityQueueItem(p, serial))
				ms[i].items = append(ms[i].items, mItem{p, serial})
			}
			if len(ms[i].items) >= 256 {
				o.Label("queue>=256")
			}
		case opBulkPop:
			was := len(ms[i].items)
			for j := 0; j < op.N && len(ms[i].items) > 0; j++ {
				if f := popOne(step, i); f != nil {
					return f
				}
				if qs[i].Len() != len(ms[i].items) {
					return pbt.Failf("C19:len", "step %d: queue %d Len()=%d after a pop, model holds %d", step, i, qs[i].Len(), len(ms[i].items))
				}
			}
			if was >= 256 && len(ms[i].items) < was/4 {
				o.Label("grown-then-drained-below-a-quarter")
			}
		case opPush:
			serial++
			qs[i].Push(utils.NewPriorityQueueItem(op.P, serial))
			ms[i].items = append(ms[i].items, mItem{op.P, serial})
		case opPop:
			if len(ms[i].items) == 0 {
				continue // Pop on empty is a documented panic; not generated
			}
			if f := popOne(step, i); f != nil {
				return f
			}
		case opPeek:
			if len(ms[i].items) == 0 {
				continue
			}
			if p := qs[i].Peek().Priority(); p != ms[i].extreme() {
				return pbt.Failf("C19:peek-not-extremal", "step %d: queue %d Peek()=%g, extremal %g", step, i, p, ms[i].extreme())
			}
		case opLen:
			if qs[i].Len() != len(ms[i].items) {
				return pbt.Failf("C19:len", "step %d: queue %d Len()=%d, model %d", step, i, qs[i].Len(), len(ms[i].items))
			}
		case opSlice:
			vals := qs[i].Values()
			if len(vals) != len(ms[i].items) {
				return pbt.Failf("C19:values", "step %d: queue %d Values() has %d, model %d", step, i, len(vals), len(ms[i].items))
			}
		case opReverse:
			if len(qs) >= 6 {
				continue
			}
			r := qs[i].Reverse()
			qs = append(qs, r)
			cp := &mQueue{max: !ms[i].max, items: append([]mItem(nil), ms[i].items...)}
			ms = append(ms, cp)
			if len(cp.items) >= 4 && reversedBig < 0 {
				reversedBig = step
				revSrc, revDst = i, len(qs)-1
			}
			o.Label("reverse")
		case opDrain:
			for len(ms[i].items) > 0 {
				if f := popOne(step, i); f != nil {
					return f
				}
			}
		}
		if f := compareAll(step, "after op"); f != nil {
			return f
		}
	}
	// final: drain every queue, must be monotone and complete
	for i := range qs {
		for len(ms[i].items) > 0 {
			if f := popOne(len(c.Ops), i); f != nil {
				return f
			}
		}
		if qs[i].Len() != 0 {
			return pbt.Failf("C19:len", "final drain: queue %d still has %d items", i, qs[i].Len())
		}
	}
	if reversedBig >= 0 {
		o.Label("reverse>=4")
		if opsAfterOnSrc && opsAfterOnDst {
			o.NonTrivial()
			o.Label("reverse>=4+ops-on-both")
		}
	}
	if len(qs) > 2 {
		o.Label("multi-reverse")
	}
	return nil
}

func TestQueueModel(t *testing.T) {
	pbt.Run(t, pbt.Prop[Case]{
		ID:    "C19",
		Name:  "TestQueueModel",
		Rule:  "rapid-generated op sequences (push/pop/peek/len/values/reverse/drain, and in a tenth of the cases bulk pushes/pops of 20-600 items so that queues grow to hundreds of items and are drained again; priorities from a tie-heavy grid or floats in [0,1000]) over a family of min/max queues vs a multiset model; non-trivial = a Reverse of a queue holding >=4 items followed by mutating ops on both the source and the reversed queue; distinct = distinct case JSON",
		Gen:   genCase,
		Check: check,
	})
}
