// C16 on a cluster wired like server.go (package ctl): the members a placement may use are whatever the creating
// node's address book holds at that moment - built from the zero group's membership changes, rebuilt from its log or
// snapshot after a restart, shrunk when a member is removed, extended when one joins late.
package c16

import (
	"context"
	"fmt"
	"strings"
	"sync"
	"testing"
	"time"

	pb "github.com/marekgalovic/anndb/protobuf"
	"pgregory.net/rapid"
	"verifharness/ctl"
	"verifharness/pbt"
	"verifharness/sim"
)

const (
	QCreate   = iota // create a dataset through member Via and judge its placement
	QRestart         // kill member A and start it again
	QSnapshot        // zero-group snapshot + compaction on member A
	QJoinLate        // the member left out at formation joins
	QRemove          // member A (not the bootstrap node) is removed and stopped
	QTick
)

var qNames = []string{"create", "restart", "snapshot", "join-late", "remove", "tick"}

type QStep struct {
	K   int `json:"k"`
	A   int `json:"a"`
	Via int `json:"via,omitempty"`
	P   int `json:"p,omitempty"`
	R   int `json:"r,omitempty"`
	N   int `json:"n,omitempty"`
}

type QCase struct {
	Members int     `json:"members"`
	Late    bool    `json:"late,omitempty"`
	Steps   []QStep `json:"steps"`
}

func (c QCase) String() string {
	var p []string
	for _, s := range c.Steps {
		p = append(p, fmt.Sprintf("%s(a=%d,via=%d,p=%d,r=%d)", qNames[s.K], s.A, s.Via, s.P, s.R))
	}
	return fmt.Sprintf("members=%d late=%v: %s", c.Members, c.Late, strings.Join(p, " "))
}

func genQCase(t *rapid.T) QCase {
	c := QCase{Members: rapid.IntRange(1, 4).Draw(t, "members")}
	c.Late = c.Members >= 2 && rapid.Bool().Draw(t, "late")
	step := rapid.Custom(func(t *rapid.T) QStep {
		k := rapid.SampledFrom([]int{QCreate, QCreate, QCreate, QRestart, QRestart, QSnapshot, QSnapshot, QJoinLate, QRemove, QTick}).Draw(t, "k")
		s := QStep{K: k, A: rapid.IntRange(0, c.Members-1).Draw(t, "a"), Via: rapid.IntRange(0, c.Members-1).Draw(t, "via")}
		if k == QCreate {
			s.P = rapid.IntRange(1, 6).Draw(t, "p")
			s.R = rapid.IntRange(1, 5).Draw(t, "r")
		}
		if k == QTick {
			s.N = rapid.SampledFrom([]int{1, 5, 25}).Draw(t, "n")
		}
		return s
	})
	c.Steps = rapid.SliceOfN(step, 3, pbt.Pick(12, 24)).Draw(t, "steps")
	return c
}

var qTrap sync.Once

func checkQCluster(c QCase, o *pbt.Obs) *pbt.Failure {
	done := make(chan *pbt.Failure, 1)
	go func() { done <- runQCluster(c, o) }()
	select {
	case f := <-done:
		return f
	case <-time.After(120 * time.Second):
		o.Inconclusive("case-did-not-end-within-120s")
		return nil
	}
}

func runQCluster(c QCase, o *pbt.Obs) *pbt.Failure {
	qTrap.Do(sim.InstallFatalTrap)
	sim.TakeUnexpectedFatal()
	cl := ctl.New(c.Members)
	defer cl.Close()
	out := map[int]bool{} // not (or no longer) a member
	for i := 1; i < c.Members; i++ {
		out[i] = true
	}
	confSettled := func(i int, present bool) bool {
		for r := 0; r < 1500; r++ {
			ok := true
			for k := 0; k < c.Members; k++ {
				if out[k] || (k == i && !present) {
					continue
				}
				nodes := cl.Nodes[k].Zero.VerifConfNodes()
				if nodes == nil {
					nodes = cl.Nodes[k].Mon.MembersAt(cl.Nodes[k].Zero.VerifStatus().Applied)
				}
				has := false
				for _, id := range nodes {
					if id == cl.Nodes[i].Id {
						has = true
					}
				}
				if has != present {
					ok = false
				}
			}
			if ok {
				return true
			}
			cl.Tick(1)
			time.Sleep(100 * time.Microsecond)
		}
		return false
	}
	if err := cl.Start(0, true); err != nil {
		return pbt.Failf("C16:start-fails", "bootstrap node: %v", err)
	}
	cl.Nodes[0].Zero.VerifCampaign()
	if !cl.ElectZero(400) {
		o.Inconclusive("bootstrap-node-did-not-elect-itself")
		return nil
	}
	join := func(i int) bool {
		if err := cl.Start(i, false); err != nil {
			o.Inconclusive("joiner-did-not-start")
			return false
		}
		if err := cl.WhileTicking(3000, func() error { return cl.Join(i, 0) }); err != nil {
			o.Inconclusive("join-did-not-complete")
			return false
		}
		delete(out, i)
		if !confSettled(i, true) {
			o.Inconclusive("join-did-not-settle")
			return false
		}
		return true
	}
	for i := 1; i < c.Members; i++ {
		if c.Late && i == c.Members-1 {
			continue
		}
		if !join(i) {
			return nil
		}
	}
	members := func() map[uint64]bool { // the cluster's members as acknowledged and settled
		m := map[uint64]bool{}
		for i := 0; i < c.Members; i++ {
			if !out[i] {
				m[cl.Nodes[i].Id] = true
			}
		}
		return m
	}
	judged := 0
	for si, s := range c.Steps {
		where := fmt.Sprintf("step %d %s(a=%d via=%d)", si, qNames[s.K], s.A, s.Via)
		a := s.A % c.Members
		switch s.K {
		case QCreate:
			via := s.Via % c.Members
			for k := 0; out[via] && k < c.Members; k++ {
				via = (via + 1) % c.Members
			}
			// the creating node has applied every settled membership change (a node that restarted replays its log first)
			mem := members()
			caught := false
			for r := 0; r < 1500 && !caught; r++ {
				known := cl.Nodes[via].Conn.Nodes()
				caught = len(known) == len(mem)
				for id := range mem {
					if _, ok := known[id]; !ok {
						caught = false
					}
				}
				if !caught {
					cl.Tick(1)
					time.Sleep(100 * time.Microsecond)
				}
			}
			if !caught {
				return pbt.Failf("C16:member-list-on-creating-node", "%s: node %d lists %v as members 1500 ticks after the last settled membership change; the cluster's members are %v; history: %s", where, via, cl.Nodes[via].Conn.Nodes(), mem, c.String())
			}
			meta, err := cl.Create(via, &pb.Dataset{Dimension: 2, PartitionCount: uint32(s.P), ReplicationFactor: uint32(s.R)}, 300*time.Millisecond, 4000)
			if err != nil {
				o.Label("create-not-acknowledged")
				continue
			}
			want := s.R
			if len(mem) < want {
				want = len(mem)
			}
			if len(meta.GetPartitions()) != s.P {
				return pbt.Failf("C16:partition-count", "%s: %d partitions, %d requested", where, len(meta.GetPartitions()), s.P)
			}
			// (the acknowledged descriptor is live: an allocator may already have extended an under-replicated partition by a
			// member that joined meanwhile, so the count may lie between min(R, N at creation) and min(R, N now))
			for pi, p := range meta.GetPartitions() {
				seen := map[uint64]bool{}
				for _, id := range p.GetNodeIds() {
					if seen[id] {
						return pbt.Failf("C16:duplicate-node", "%s: partition %d is placed on %v (node %d twice); members %v", where, pi, p.GetNodeIds(), id, mem)
					}
					seen[id] = true
					if !mem[id] {
						return pbt.Failf("C16:non-member", "%s: partition %d is placed on %v; %d is not a member (members %v); history: %s", where, pi, p.GetNodeIds(), id, mem, c.String())
					}
				}
				if len(p.GetNodeIds()) != want {
					return pbt.Failf("C16:replica-count", "%s: partition %d is placed on %d nodes %v, expected min(R=%d, N=%d); history: %s", where, pi, len(p.GetNodeIds()), p.GetNodeIds(), s.R, len(mem), c.String())
				}
			}
			judged++
			o.Label("placement-judged")
		case QRestart:
			if out[a] {
				continue
			}
			snap, _ := cl.Nodes[a].Mon.Snapshot()
			if !cl.Kill(a) {
				o.Inconclusive("killed-node-did-not-stop")
				return nil
			}
			time.Sleep(200 * time.Microsecond)
			if err := cl.Start(a, a == 0); err != nil {
				return pbt.Failf("C16:restart-fails", "%s: %v", where, err)
			}
			if snap.Metadata.Index > 0 {
				o.Label("restart-after-zero-group-compaction")
			}
			o.Label("restart")
			cl.ElectZero(1500)
		case QSnapshot:
			if !out[a] {
				cl.Nodes[a].Zero.VerifSnapshotNow()
			}
		case QJoinLate:
			late := c.Members - 1
			if !c.Late || !out[late] || cl.Nodes[late].Joined {
				continue
			}
			cl.Nodes[late].Joined = true
			if !join(late) {
				return nil
			}
			o.Label("member-joined-late")
		case QRemove:
			if a == 0 || out[a] {
				continue
			}
			if err := cl.WhileTicking(3000, func() error { return cl.Nodes[0].NM.RemoveNode(cl.Nodes[a].Id) }); err != nil {
				o.Inconclusive("removal-did-not-complete")
				return nil
			}
			if !confSettled(a, false) {
				o.Inconclusive("removal-did-not-settle")
				return nil
			}
			if !cl.Kill(a) {
				o.Inconclusive("killed-node-did-not-stop")
				return nil
			}
			out[a] = true
			cl.Nodes[a].Joined = true // never joins again
			o.Label("member-removed")
		case QTick:
			cl.Tick(s.N)
		}
		cl.Tick(1)
		if f := sim.TakeUnexpectedFatal(); f != "" {
			return pbt.Failf("C16:fatal-in-ready-loop", "%s: log.Fatal without an injected crash: %.500s", where, f)
		}
	}
	// at the end of the history every member's catalogue still gives every partition a set of nodes: replica-set
	// maintenance (allocators reacting to joins, leaves and the membership replay of a restart) adds a node once
	cl.ElectZero(1500)
	cl.Tick(50)
	for i := 0; i < c.Members; i++ {
		if out[i] {
			continue
		}
		ds, err := cl.Nodes[i].DM.List(context.Background(), false)
		if err != nil {
			continue
		}
		for _, m := range ds {
			for pi, p := range m.GetPartitions() {
				seen := map[uint64]bool{}
				for _, id := range p.GetNodeIds() {
					if seen[id] {
						return pbt.Failf("C16:duplicate-node", "after the history node %d lists partition %d of a dataset (replication factor %d) on %v: node %d twice; history: %s", i, pi, m.GetReplicationFactor(), p.GetNodeIds(), id, c.String())
					}
					seen[id] = true
				}
				if len(p.GetNodeIds()) > int(m.GetReplicationFactor()) {
					return pbt.Failf("C16:replica-count", "after the history node %d lists partition %d on %d nodes %v, replication factor %d", i, pi, len(p.GetNodeIds()), p.GetNodeIds(), m.GetReplicationFactor())
				}
			}
		}
	}
	if judged >= 2 && c.Members >= 2 {
		o.NonTrivial()
	}
	o.Note(c.String())
	return nil
}

func TestPlacementOnCluster(t *testing.T) {
	pbt.Run(t, pbt.Prop[QCase]{
		ID: "C16", Name: "TestPlacementOnCluster",
		Rule:    "rapid-generated histories on 1-4 simulated nodes wired like server.go (package ctl: real zero groups, shared group, NodesManager, allocator, DatasetManager): node 0 bootstraps, the others join through it (one of them possibly only during the history), members are removed from the cluster, nodes restart (their address book is rebuilt from the zero group's log or snapshot), zero groups compact; datasets with 1-6 partitions and replication factor 1-5 are created through the DatasetManager API of any member; oracle: within 1500 ticks of the last settled membership change the creating node lists exactly the cluster's members, and every acknowledged dataset has the requested number of partitions, each on exactly min(R, N) distinct nodes that are all current members; non-trivial = >=2 members and >=2 judged placements; distinct = distinct case JSON",
		Gen:     genQCase,
		Check:   checkQCluster,
		Journal: true,
	})
}
