// C16 — every partition is placed on min(R, N) distinct member nodes, independently.
package c16

import (
	"context"
	"errors"
	"fmt"
	"math"
	"math/rand"
	"testing"

	"github.com/golang/protobuf/proto"
	"github.com/marekgalovic/anndb/cluster"
	pb "github.com/marekgalovic/anndb/protobuf"
	"github.com/marekgalovic/anndb/storage"
	"github.com/marekgalovic/anndb/storage/raft"
	"pgregory.net/rapid"
	"verifharness/catalog"
	"verifharness/gen"
	"verifharness/hutil"
	"verifharness/pbt"
)

func TestMain(m *testing.M) { pbt.Main(m) }

type Case struct {
	N    int   `json:"n"`             // members 1..16
	R    int   `json:"r"`             // replication factor 1..8
	P    int   `json:"p"`             // partitions 1..64
	Seed int64 `json:"seed"`          // math/rand seed of the shuffle
	Via  int   `json:"via"`           // 0 allocator hook, 1 DatasetManager.Create proposal
	Pre  int   `json:"pre,omitempty"` // via 1: the request already carries this many partitions (non-member / duplicate nodes), e.g. a descriptor from Get re-submitted
	// Hist: membership changes applied to the address book after the N initial members, as the zero group's conf changes
	// arrive (also twice, also for ids that are not listed): +k = member k-1 is added, -k = member k-1 is removed (never member 0,
	// the node itself); the members of the cluster are what set semantics leave
	Hist []int `json:"hist,omitempty"`
}

// membersOf is the member set after the case's membership history.
func membersOf(c Case) map[uint64]bool {
	m := map[uint64]bool{}
	for i := 0; i < c.N; i++ {
		m[memberID(i)] = true
	}
	for _, h := range c.Hist {
		if h > 0 {
			m[memberID(h-1)] = true
		} else if h < -1 {
			delete(m, memberID(-h-1))
		}
	}
	return m
}

// captureGroup is a scripted raft.Group: it records the proposal and refuses it,
// so Create returns at once and the placement can be read from the bytes that
// would have been replicated.
type captureGroup struct{ last []byte }

var errCaptured = errors.New("captured")

func (g *captureGroup) RegisterProcessFn(raft.ProcessFn) error         { return nil }
func (g *captureGroup) RegisterProcessSnapshotFn(raft.ProcessFn) error { return nil }
func (g *captureGroup) RegisterSnapshotFn(raft.SnapshotFn) error       { return nil }
func (g *captureGroup) LeaderId() uint64                               { return 1 }
func (g *captureGroup) Propose(ctx context.Context, data []byte) error {
	g.last = append([]byte(nil), data...)
	return errCaptured
}

func memberID(i int) uint64 { return uint64(1000 + 37*i) }

func placement(c Case) ([][]uint64, *pbt.Failure) {
	conn, err := cluster.NewConn(memberID(0), "127.0.0.1:1", "")
	if err != nil {
		panic(err)
	}
	for i := 0; i < c.N; i++ {
		conn.AddNode(memberID(i), fmt.Sprintf("127.0.0.1:%d", 2000+i))
	}
	for _, h := range c.Hist {
		if h > 0 {
			conn.AddNode(memberID(h-1), fmt.Sprintf("127.0.0.1:%d", 2000+h-1))
		} else if h < -1 {
			conn.RemoveNode(memberID(-h - 1))
		}
	}
	alloc := storage.NewAllocator(conn)
	defer alloc.Stop()
	rand.Seed(c.Seed)
	if c.Via == 0 {
		return alloc.VerifPlacement(uint(c.P), uint(c.R)), nil
	}
	db := hutil.MemDB()
	defer db.Close()
	g := &captureGroup{}
	dm, err := storage.NewDatasetManager(g, db, nil, conn, alloc)
	if err != nil {
		panic(err)
	}
	req := &pb.Dataset{Dimension: 4, PartitionCount: uint32(c.P), ReplicationFactor: uint32(c.R)}
	for i := 0; i < c.Pre; i++ {
		// whatever a request says about placement is not the server's decision
		req.Partitions = append(req.Partitions, &pb.Partition{Id: gen.ID(77000 + i).Bytes(), NodeIds: []uint64{424242, memberID(0), memberID(0)}})
	}
	_, err = dm.Create(context.Background(), req)
	if err != errCaptured {
		return nil, pbt.Failf("C16:create", "Create over the scripted group returned %v", err)
	}
	var ch pb.DatasetManagerChange
	if err := proto.Unmarshal(g.last, &ch); err != nil {
		return nil, pbt.Failf("C16:create", "proposal does not decode: %v", err)
	}
	var ds pb.Dataset
	if err := proto.Unmarshal(ch.Data, &ds); err != nil {
		return nil, pbt.Failf("C16:create", "dataset in proposal does not decode: %v", err)
	}
	if len(ds.Partitions) != c.P {
		return nil, pbt.Failf("C16:partition-count", "proposal carries %d partitions, asked for %d", len(ds.Partitions), c.P)
	}
	out := make([][]uint64, c.P)
	for i, p := range ds.Partitions {
		out[i] = p.NodeIds
	}
	return out, nil
}

func check(c Case, o *pbt.Obs) *pbt.Failure {
	pl, f := placement(c)
	if f != nil {
		return f
	}
	members := membersOf(c)
	c.N = len(members)
	want := c.R
	if c.N < want {
		want = c.N
	}
	if len(c.Hist) > 0 {
		o.Label("address-book-built-by-a-membership-history")
	}
	if len(pl) != c.P {
		return pbt.Failf("C16:partition-count", "%d placements for %d partitions", len(pl), c.P)
	}
	for i, ids := range pl {
		if len(ids) != want {
			return pbt.Failf("C16:replica-count", "partition %d assigned %d nodes %v, expected min(R=%d,N=%d)=%d (membership history %v)", i, len(ids), ids, c.R, c.N, want, c.Hist)
		}
		seen := map[uint64]bool{}
		for _, id := range ids {
			if !members[id] {
				return pbt.Failf("C16:non-member", "partition %d assigned %d which is not a member", i, id)
			}
			if seen[id] {
				return pbt.Failf("C16:duplicate-node", "partition %d assigned node %d twice: %v", i, id, ids)
			}
			seen[id] = true
		}
	}
	// independence (ii): with A = N!/(N-r)! ordered placements and A^(P-1) >= 1e12, identical lists for all partitions
	// have probability <= 1e-12 under independent placement
	if c.P >= 2 && c.N > 1 {
		logA := 0.0
		for i := 0; i < want; i++ {
			logA += math.Log10(float64(c.N - i))
		}
		if logA*float64(c.P-1) >= 12 {
			o.Label("independence-test-applies")
			same := true
			for i := 1; i < len(pl); i++ {
				if fmt.Sprint(pl[i]) != fmt.Sprint(pl[0]) {
					same = false
				}
			}
			if same {
				return pbt.Failf("C16:all-identical", "all %d partitions got the identical placement %v on %d nodes (chance <= 1e-12 if independent)", c.P, pl[0], c.N)
			}
		}
	}
	if c.N > c.R && c.P >= 2 {
		o.NonTrivial()
	}
	o.Labelf("via=%d", c.Via)
	return nil
}

func TestPlacement(t *testing.T) {
	pbt.Run(t, pbt.Prop[Case]{
		ID: "C16", Name: "TestPlacement",
		Rule: "rapid-generated (N in 1..16 members on a real cluster.Conn, in half of the cases followed by 1-12 further membership changes - members 1..8 added and removed, also twice and also when not listed - the members being what set semantics leave; R in 1..8, P in 1..64, shuffle seed), placement observed through the allocator hook and as embedded in the proposal of a real DatasetManager.Create over a scripted raft.Group (the request optionally carrying 1, 2 or 70 partitions of its own, as a re-submitted descriptor would); oracle: each partition has exactly min(R,N) pairwise distinct member ids; where the number of ordered placements A satisfies A^(P-1)>=1e12 not all partitions are identical; non-trivial = N>R and P>=2; distinct = distinct case JSON",
		Gen: func(t *rapid.T) Case {
			return Case{N: rapid.IntRange(1, 16).Draw(t, "n"), R: rapid.IntRange(1, 8).Draw(t, "r"), P: rapid.IntRange(1, 64).Draw(t, "p"),
				Seed: rapid.Int64().Draw(t, "seed"), Via: rapid.IntRange(0, 1).Draw(t, "via"), Pre: rapid.SampledFrom([]int{0, 0, 0, 1, 2, 70}).Draw(t, "pre"),
				Hist: rapid.OneOf(rapid.Just([]int(nil)), rapid.SliceOfN(rapid.Custom(func(t *rapid.T) int {
					k := rapid.IntRange(1, 8).Draw(t, "member") + 1 // members 1..8, never the node itself
					if rapid.Bool().Draw(t, "remove") {
						return -k
					}
					return k
				}), 1, 12)).Draw(t, "hist")}
		},
		Check: check,
	})
}

// A deliberately loose frequency check: N=4, R=1, P=2 => P[p0 == p1] should be 1/4.
type FreqCase struct {
	Seed int64 `json:"seed"`
}

func TestPlacementFrequency(t *testing.T) {
	pbt.Run(t, pbt.Prop[FreqCase]{
		ID: "C16", Name: "TestPlacementFrequency",
		Rule: "per case 2000 placements of (N=4,R=1,P=2) from one generated shuffle seed; the fraction with both partitions on the same node must lie in [0.10,0.45] (15 sigma around 1/4); every case is non-trivial; distinct = distinct seed",
		Gen:  func(t *rapid.T) FreqCase { return FreqCase{Seed: rapid.Int64().Draw(t, "seed")} },
		Check: func(c FreqCase, o *pbt.Obs) *pbt.Failure {
			conn, _ := cluster.NewConn(memberID(0), "127.0.0.1:1", "")
			for i := 0; i < 4; i++ {
				conn.AddNode(memberID(i), "x")
			}
			alloc := storage.NewAllocator(conn)
			defer alloc.Stop()
			rand.Seed(c.Seed)
			same := 0
			const draws = 2000
			for i := 0; i < draws; i++ {
				pl := alloc.VerifPlacement(2, 1)
				a, b := pl[0][0], pl[1][0]
				if a == b {
					same++
				}
			}
			o.NonTrivial()
			fr := float64(same) / draws
			if fr < 0.10 || fr > 0.45 {
				return pbt.Failf("C16:not-independent", "two partitions landed on the same single node in %.3f of %d placements (expected about 0.25)", fr, draws)
			}
			return nil
		},
	})
}

// The same frequencies when the catalogue already holds datasets: earlier placements are no input of a new one.
type FreqCatCase struct {
	Seed int64 `json:"seed"`
	// Existing: datasets in the catalogue before the placements are drawn; per dataset, per partition, the member indexes (1..3)
	// hosting it (this node, member 0, hosts nothing: no raft groups are loaded)
	Existing [][][]int `json:"existing"`
}

func TestPlacementFrequencyWithCatalogue(t *testing.T) {
	pbt.Run(t, pbt.Prop[FreqCatCase]{
		ID: "C16", Name: "TestPlacementFrequencyWithCatalogue",
		Rule: "a real DatasetManager + allocator on member 0 of 4 (scripted zero group) whose catalogue already holds 1-3 generated datasets of 1-4 partitions placed on generated subsets of the other three members (so some members host nothing, some host everything); then 2000 placements of (R=1,P=2) from one generated shuffle seed; the fraction with both partitions on the same node must lie in [0.10,0.45] (15 sigma around 1/4); every case is non-trivial; distinct = distinct case JSON",
		Gen: func(t *rapid.T) FreqCatCase {
			part := rapid.SliceOfNDistinct(rapid.IntRange(1, 3), 1, 3, rapid.ID[int])
			return FreqCatCase{Seed: rapid.Int64().Draw(t, "seed"), Existing: rapid.SliceOfN(rapid.SliceOfN(part, 1, 4), 1, 3).Draw(t, "existing")}
		},
		Check: func(c FreqCatCase, o *pbt.Obs) *pbt.Failure {
			members := []uint64{memberID(0), memberID(1), memberID(2), memberID(3)}
			r := catalog.NewReplica("freq", memberID(0), members)
			defer r.Close()
			m := catalog.Model{}
			hosting := map[uint64]bool{}
			for slot, ds := range c.Existing {
				op := catalog.Op{K: catalog.OpCreate, Slot: slot, Dim: 2}
				for _, p := range ds {
					var ids []uint64
					for _, i := range p {
						ids = append(ids, memberID(i))
						hosting[memberID(i)] = true
					}
					op.Nodes = append(op.Nodes, ids)
				}
				_ = r.G.Process(catalog.Marshal(op, slot, m))
				catalog.ApplyModel(m, op)
			}
			r.Flush()
			o.Labelf("members-hosting-nothing=%d", 4-len(hosting))
			rand.Seed(c.Seed)
			same := 0
			const draws = 2000
			for i := 0; i < draws; i++ {
				pl := r.Alloc.VerifPlacement(2, 1)
				if len(pl) != 2 || len(pl[0]) != 1 || len(pl[1]) != 1 {
					return pbt.Failf("C16:replica-count", "placement %v for P=2 R=1 on 4 members", pl)
				}
				if pl[0][0] == pl[1][0] {
					same++
				}
			}
			o.NonTrivial()
			if fr := float64(same) / draws; fr < 0.10 || fr > 0.45 {
				return pbt.Failf("C16:not-independent", "with datasets %v in the catalogue two partitions landed on the same single node in %.3f of %d placements (expected about 0.25)", c.Existing, fr, draws)
			}
			return nil
		},
	})
}

// Overlapping dataset creations: placements computed concurrently on one node.
type ConcCase struct {
	N, R, P int
	Workers int   `json:"workers"`
	Rounds  int   `json:"rounds"`
	Seed    int64 `json:"seed"`
}

func validPlacement(pl [][]uint64, n, r, p int) string {
	want := r
	if n < want {
		want = n
	}
	if len(pl) != p {
		return fmt.Sprintf("%d placements for %d partitions", len(pl), p)
	}
	for i, ids := range pl {
		if len(ids) != want {
			return fmt.Sprintf("partition %d assigned %d nodes %v, expected %d", i, len(ids), ids, want)
		}
		seen := map[uint64]bool{}
		for _, id := range ids {
			if id < 1000 || (id-1000)%37 != 0 || int((id-1000)/37) >= n {
				return fmt.Sprintf("partition %d assigned %d which is not a member", i, id)
			}
			if seen[id] {
				return fmt.Sprintf("partition %d assigned node %d twice: %v", i, id, ids)
			}
			seen[id] = true
		}
	}
	return ""
}

func TestPlacementConcurrent(t *testing.T) {
	pbt.Run(t, pbt.Prop[ConcCase]{
		ID: "C16", Name: "TestPlacementConcurrent",
		Rule: "2-4 goroutines compute placements concurrently on one allocator (overlapping dataset creations), 1-6 rounds each, then one more placement after quiescence; every placement must satisfy the count/distinct/member predicate; non-trivial = N>R; distinct = distinct case JSON",
		Gen: func(t *rapid.T) ConcCase {
			return ConcCase{N: rapid.IntRange(2, 16).Draw(t, "n"), R: rapid.IntRange(1, 8).Draw(t, "r"), P: rapid.IntRange(1, 16).Draw(t, "p"),
				Workers: rapid.IntRange(2, 4).Draw(t, "workers"), Rounds: rapid.IntRange(1, 6).Draw(t, "rounds"), Seed: rapid.Int64().Draw(t, "seed")}
		},
		Check: func(c ConcCase, o *pbt.Obs) *pbt.Failure {
			conn, _ := cluster.NewConn(memberID(0), "127.0.0.1:1", "")
			for i := 0; i < c.N; i++ {
				conn.AddNode(memberID(i), "x")
			}
			alloc := storage.NewAllocator(conn)
			defer alloc.Stop()
			rand.Seed(c.Seed)
			errs := make(chan string, c.Workers*c.Rounds)
			done := make(chan struct{})
			for w := 0; w < c.Workers; w++ {
				go func() {
					defer func() { done <- struct{}{} }()
					for r := 0; r < c.Rounds; r++ {
						if d := validPlacement(alloc.VerifPlacement(uint(c.P), uint(c.R)), c.N, c.R, c.P); d != "" {
							errs <- d
						}
					}
				}()
			}
			for w := 0; w < c.Workers; w++ {
				<-done
			}
			select {
			case d := <-errs:
				return pbt.Failf("C16:concurrent-placement-invalid", "N=%d R=%d P=%d, %d concurrent creators: %s", c.N, c.R, c.P, c.Workers, d)
			default:
			}
			if d := validPlacement(alloc.VerifPlacement(uint(c.P), uint(c.R)), c.N, c.R, c.P); d != "" {
				return pbt.Failf("C16:placement-invalid-after-concurrent-creates", "N=%d R=%d P=%d after %d concurrent creators: %s", c.N, c.R, c.P, c.Workers, d)
			}
			if c.N > c.R {
				o.NonTrivial()
			}
			return nil
		},
	})
}
